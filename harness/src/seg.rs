//! C13 — output regions: the REAL `Context` is driven through assembly TEXT (so `.addr`, `.align`, the data
//! directives, `Arm6M::assemble`, the task queues, `close_segment` and `finalize` are all in the loop) and
//! compared with the Lean model `Trion.Seg`; the property oracle is a byte-level shadow dictionary.
//!
//! Inputs (replayable): `run <op>;<op>;…` (one op per statement, see Driver/Seg.lean) and
//! `enum <base> <depth> <prefix>` (all programs of length ≤ depth over the 26-statement alphabet).
// catch-all arms keep the harness compiling when the crate adds a variant to one of its error enums (the outcome is then `unknown:<Debug>`)
#![allow(unreachable_patterns)]
use std::collections::BTreeMap;
use std::error::Error;
use std::path::PathBuf;
use std::sync::atomic::{AtomicUsize, Ordering};
use std::sync::Mutex;

use trion::arm6m::Arm6M;
use trion::asm::constant::Realm;
use trion::asm::directive::DirectiveList;
use trion::asm::Context;

use crate::common::*;

#[derive(Clone, Copy, Debug, PartialEq, Eq)]
enum Mode {Imm, Local, Global}

/// one statement of a generated program
#[derive(Clone, Debug)]
enum St
{
	Addr(u32),
	/// `.dhex` / `.dstr` (immediate, `ActiveSegment::write`)
	Bytes(Vec<u8>),
	Align(u32),
	/// `.du8/.du16/.du32` with the final little-endian bytes
	Du(Vec<u8>, Mode),
	Nop,
	/// `UDF.N imm8`
	Udf(u8, Mode),
	/// `UDF.W imm16`
	UdfW(u16, Mode),
}

impl St
{
	/// final bytes of a writing statement
	fn bytes(&self) -> Vec<u8>
	{
		match self
		{
			St::Addr(..) | St::Align(..) => Vec::new(),
			St::Bytes(d) | St::Du(d, _) => d.clone(),
			St::Nop => vec![0x00, 0xBF],
			St::Udf(v, _) => vec![*v, 0xDE],
			St::UdfW(v, _) => {let (h1, h2) = (0xF7F0u16 | (v >> 12), 0xA000u16 | (v & 0xFFF)); vec![h1 as u8, (h1 >> 8) as u8, h2 as u8, (h2 >> 8) as u8]},
		}
	}

	fn mode(&self) -> Mode
	{
		match self {St::Du(_, m) | St::Udf(_, m) | St::UdfW(_, m) => *m, _ => Mode::Imm}
	}

	fn value(&self) -> i64
	{
		match self
		{
			St::Du(d, _) => d.iter().enumerate().map(|(i, &b)| (b as i64) << (8 * i)).sum(),
			St::Udf(v, _) => *v as i64,
			St::UdfW(v, _) => *v as i64,
			_ => 0,
		}
	}

	/// the op of the model's line protocol
	fn op(&self) -> String
	{
		match self
		{
			St::Addr(a) => format!("sel:{a}"),
			St::Bytes(d) => format!("app:{}", hex(d)),
			St::Align(n) => format!("al:{n}"),
			_ => format!("{}:{}", match self.mode() {Mode::Imm => "plc", Mode::Local => "defl", Mode::Global => "defg"}, hex(&self.bytes())),
		}
	}

	/// assembly text of the statement at position `t`
	fn text(&self, t: usize) -> String
	{
		let arg = |m: Mode, v: i64| match m {Mode::Imm => format!("{v}"), Mode::Local => format!("f{t}"), Mode::Global => format!("g{t}")};
		match self
		{
			St::Addr(a) => format!(".addr {a};"),
			St::Bytes(d) =>
			{
				if !d.is_empty() && d.iter().all(|b| b.is_ascii_alphanumeric()) {format!(".dstr \"{}\";", String::from_utf8_lossy(d))}
				else {format!(".dhex \"{}\";", if d.is_empty() {String::new()} else {hex(d)})}
			},
			St::Align(n) => format!(".align {n};"),
			St::Du(d, m) => format!(".du{} {};", d.len() * 8, arg(*m, self.value())),
			St::Nop => "NOP;".to_owned(),
			St::Udf(_, m) => format!("UDF.N {};", arg(*m, self.value())),
			St::UdfW(_, m) => format!("UDF.W {};", arg(*m, self.value())),
		}
	}

	fn parse_op(op: &str) -> Option<St>
	{
		let w: Vec<&str> = op.split(':').collect();
		match w.as_slice()
		{
			["sel", a] => Some(St::Addr(a.parse().ok()?)),
			["app", d] => Some(St::Bytes(unhex(d)?)),
			["al", n] => Some(St::Align(n.parse().ok()?)),
			[k @ ("plc" | "defl" | "defg"), d] =>
			{
				let d = unhex(d)?;
				let m = match *k {"plc" => Mode::Imm, "defl" => Mode::Local, _ => Mode::Global};
				match d.len()
				{
					1 => Some(St::Du(d, m)),
					2 if d == [0x00, 0xBF] && m == Mode::Imm => Some(St::Nop),
					2 if d[1] == 0xDE => Some(St::Udf(d[0], m)),
					2 => Some(St::Du(d, m)),
					4 if d[1] == 0xF7 && d[0] & 0xF0 == 0xF0 && d[3] & 0xF0 == 0xA0 =>
						Some(St::UdfW((((d[0] & 0x0F) as u16) << 12) | (((d[3] & 0x0F) as u16) << 8) | d[2] as u16, m)),
					4 => Some(St::Du(d, m)),
					_ => None,
				}
			},
			_ => None,
		}
	}
}

fn ops_text(prog: &[St]) -> String {prog.iter().map(|s| s.op()).collect::<Vec<_>>().join(";")}

// ------------------------------------------------------------------------------------------------
// the real pipeline

/// kind of the innermost error of a diagnostic, from its structure (errkind.rs; no message text is read)
fn classify(e: &(dyn Error + 'static)) -> String
{
	use trion::asm::directive::align::AlignError;
	use trion::asm::directive::data::DataError;
	use trion::asm::memory::map::PutError;
	use trion::asm::{AsmErrorKind, SegmentError};
	let e = crate::errkind::innermost(e);
	if let Some(s) = e.downcast_ref::<SegmentError>()
	{
		return match s
		{
			SegmentError::Occupied(a) => format!("occupied {a:08x}"),
			SegmentError::Overflow{need, have} => format!("overflow {need} {have}"),
			SegmentError::Write(PutError::Overflow{need, have}) => format!("write {need} {have}"),
			s => format!("unknown:{s:?}").replace(' ', "_").replace(',', "_"),
		};
	}
	if let Some(PutError::Overflow{need, have}) = e.downcast_ref::<PutError>() {return format!("write {need} {have}");}
	if matches!(e.downcast_ref::<DataError>(), Some(DataError::Inactive)) || matches!(e.downcast_ref::<AlignError>(), Some(AlignError::Inactive))
		|| matches!(e.downcast_ref::<AsmErrorKind>(), Some(AsmErrorKind::Inactive)) {return "inactive".to_owned();}
	format!("other:{}", crate::errkind::diag_kind(e).replace(' ', "_").replace(',', "_"))
}

fn innermost<'a>(e: &'a (dyn Error + 'static)) -> &'a (dyn Error + 'static) {crate::errkind::innermost(e)}

/// run a program through the real assembler; canonical `<errors> | <image>`
fn real_run(dirs: &DirectiveList, prog: &[St]) -> String
{
	let globals: Vec<usize> = prog.iter().enumerate().filter(|(_, s)| s.mode() == Mode::Global).map(|(t, _)| t).collect();
	let mut text = String::new();
	for t in &globals {text.push_str(&format!(".import g{t};\n"));}
	for (t, s) in prog.iter().enumerate() {text.push_str(&s.text(t)); text.push('\n');}
	for (t, s) in prog.iter().enumerate() {if s.mode() == Mode::Local {text.push_str(&format!(".const f{t}, {};\n", s.value()));}}
	let nprel = globals.len() as u32;
	let r = guarded(||
	{
		let mut ctx = Context::new(&Arm6M, dirs);
		for t in &globals {ctx.defer_constant(&format!("g{t}"), Realm::Global).unwrap();}
		drop(ctx.assemble(text.as_bytes(), PathBuf::from("p.asm")));
		let mut errs: Vec<String> = Vec::new();
		let take = |ctx: &Context, errs: &mut Vec<String>, from: usize|
		{
			for e in &ctx.get_errors()[from..]
			{
				let kind = classify(&e.value);
				if e.line > nprel && e.line <= nprel + prog.len() as u32 {errs.push(format!("E{} {kind}", e.line - nprel - 1));}
				else {errs.push(format!("L{} {kind}", e.line));}
			}
			ctx.get_errors().len()
		};
		let n = take(&ctx, &mut errs, 0);
		if let Err(e) = ctx.close_segment() {errs.push(format!("C {}", classify(innermost(&e))));}
		for t in &globals {let _ = ctx.insert_constant(&format!("g{t}"), prog[*t].value(), Realm::Global);}
		ctx.finalize();
		take(&ctx, &mut errs, n);
		// one failing `.du*` statement is reported twice by the implementation (value write, then placeholder write);
		// duplicate diagnostics are outside the property: adjacent identical entries are merged
		errs.dedup();
		let mut img = String::from("[");
		for (i, (r, d)) in ctx.output().iter().enumerate()
		{
			if i > 0 {img.push(',');}
			img.push_str(&format!("{:08x}:{}", r.get_first(), hex(d)));
		}
		img.push(']');
		format!("{} | {img}", if errs.is_empty() {"ok".to_owned()} else {errs.join(",")})
	});
	match r {Ok(s) => s, Err(p) => format!("PANIC: {p}")}
}

// ------------------------------------------------------------------------------------------------
// the property oracle: byte-level shadow, independent of the model

/// expected `<errors> | <image>` by the property: a region starts exactly at the selected address; a selected
/// address that already holds output is refused; a statement that would run into an occupied address or past
/// 0xFFFFFFFF is a diagnostic and nothing is written; no byte of an earlier statement is ever replaced, except
/// a placeholder by its own resolved value.
fn oracle_run(prog: &[St]) -> String
{
	let mut sh: BTreeMap<u32, u8> = BTreeMap::new();
	let mut cursor: Option<u64> = None;
	let mut deferred: Vec<(u64, Vec<u8>)> = Vec::new();
	let mut status = "ok".to_owned();
	for (t, s) in prog.iter().enumerate()
	{
		let (len, fill): (usize, Option<Vec<u8>>) = match s
		{
			St::Addr(a) =>
			{
				if sh.contains_key(a) {status = format!("E{t} occupied {a:08x}"); break;}
				cursor = Some(*a as u64);
				continue;
			},
			St::Align(n) =>
			{
				let Some(c) = cursor else {status = format!("E{t} inactive"); break;};
				// the alignment is computed on the true (64-bit) cursor: a region filled through 0xFFFFFFFF ends at 2^32
				let off = c % *n as u64;
				if off == 0 {continue;}
				((*n as u64 - off) as usize, Some(vec![0xBE; (*n as u64 - off) as usize]))
			},
			_ => (s.bytes().len(), None),
		};
		let Some(c) = cursor else {status = format!("E{t} inactive"); break;};
		// room up to the next occupied address or the end of the address space
		let limit = sh.range((c.min(0xFFFF_FFFF) as u32)..).next().map(|(k, _)| *k as u64).filter(|&k| k >= c).unwrap_or(1 << 32);
		let have = limit.saturating_sub(c);
		if len as u64 > have {status = format!("E{t} overflow {len} {have}"); break;}
		let data = match (fill, s.mode())
		{
			(Some(f), _) => f,
			(None, Mode::Imm) => s.bytes(),
			(None, _) => {deferred.push((c, s.bytes())); vec![0xBE; len]},
		};
		for (k, &b) in data.iter().enumerate() {sh.insert((c + k as u64) as u32, b);}
		cursor = Some(c + len as u64);
	}
	if status == "ok"
	{
		for (c, d) in deferred {for (k, &b) in d.iter().enumerate() {sh.insert((c + k as u64) as u32, b);}}
	}
	let mut img = String::from("[");
	let mut prev: Option<u32> = None;
	for (&a, &b) in &sh
	{
		if prev.map(|p| p as u64 + 1) != Some(a as u64)
		{
			if prev.is_some() {img.push(',');}
			img.push_str(&format!("{a:08x}:"));
		}
		img.push_str(&format!("{b:02x}"));
		prev = Some(a);
	}
	img.push(']');
	format!("{status} | {img}")
}

fn check_prog(cx: &mut Cx, dirs: &DirectiveList, prog: &[St], reply: &str)
{
	let ops = ops_text(prog);
	let input = format!("run {ops}");
	let imp = real_run(dirs, prog);
	cx.report.case(Some(&imp));
	cx.report.hit(if imp.starts_with("ok") {"program: ok"} else if imp.contains("occupied") {"program: occupied"} else if imp.contains("overflow") {"program: overflow"}
		else if imp.contains("inactive") {"program: inactive"} else {"program: other"});
	cx.report.compare("model.seg.run", &input, reply, &imp);
	let want = oracle_run(prog);
	if imp != want
	{
		cx.report.oracle_fail(input, format!("the property requires {want}; the assembler produced {imp}"));
	}
}

// ------------------------------------------------------------------------------------------------
// alphabet of the exhaustive tier (mirrors Driver/Seg.lean: opAt)

fn op_at(base: u32, t: usize, i: usize) -> St
{
	let b = |k: usize, n: usize| -> Vec<u8> {(0..n).map(|j| ((k + 16 * j + t) % 256) as u8).collect()};
	let c = ((0xC0 + t) % 256) as u8;
	match i
	{
		0..=7 => St::Addr(base + i as u32),
		8..=11 => St::Bytes(b(0x50, i - 7)),
		12 => St::Du(b(0x10, 1), Mode::Imm),
		13 => St::Du(b(0x10, 2), Mode::Imm),
		14 => St::Du(b(0x10, 4), Mode::Imm),
		15 => St::Nop,
		16 => St::UdfW(0x1234, Mode::Imm),
		17 => St::Du(b(0xC0, 1), Mode::Local),
		18 => St::Du(b(0xC0, 2), Mode::Local),
		19 => St::Du(b(0xC0, 4), Mode::Local),
		20 => St::Udf(c, Mode::Local),
		21 => St::UdfW(0x0500 | c as u16, Mode::Local),
		22 => St::Du(b(0xC0, 1), Mode::Global),
		23 => St::Du(b(0xC0, 2), Mode::Global),
		24 => St::Align(2),
		_ => St::Align(4),
	}
}

fn mix(h: u64, n: u64) -> u64 {(h ^ n).wrapping_mul(0x100000001b3)}

/// hash of a canonical result, identical to `hashResult` of the driver: FNV over the error text, then the image
fn hash_result(mut h: u64, res: &str) -> u64
{
	let (errs, img) = res.split_once(" | ").unwrap_or((res, "[]"));
	h = fnv(h, errs.as_bytes());
	let segs: Vec<(u32, Vec<u8>)> = img.trim_matches(|c| c == '[' || c == ']').split(',').filter(|s| !s.is_empty())
		.map(|s| {let (a, d) = s.split_once(':').unwrap(); (u32::from_str_radix(a, 16).unwrap(), unhex(d).unwrap())}).collect();
	h = mix(h, segs.len() as u64);
	for (a, d) in segs
	{
		h = mix(mix(h, a as u64), a as u64 + d.len() as u64 - 1);
		h = mix(h, d.len() as u64);
		for b in d {h = mix(h, b as u64);}
	}
	h
}

struct EnumOut
{
	digest: u64,
	nodes: u64,
	failure: Option<(Vec<St>, String)>,
	hist: BTreeMap<&'static str, u64>,
}

fn enum_go(dirs: &DirectiveList, base: u32, depth: usize, prog: &mut Vec<St>, mut h: u64, out: &mut EnumOut) -> u64
{
	if prog.len() >= depth {return h;}
	let t = prog.len();
	for i in 0..26
	{
		prog.push(op_at(base, t, i));
		let (h2, ok) = enum_node(dirs, prog, h, out);
		h = h2;
		if ok {h = enum_go(dirs, base, depth, prog, h, out);}
		prog.pop();
	}
	h
}

fn enum_node(dirs: &DirectiveList, prog: &[St], h: u64, out: &mut EnumOut) -> (u64, bool)
{
	let imp = real_run(dirs, prog);
	out.nodes += 1;
	*out.hist.entry(if imp.starts_with("ok") {"program: ok"} else if imp.contains("occupied") {"program: occupied"} else if imp.contains("overflow") {"program: overflow"}
		else if imp.contains("inactive") {"program: inactive"} else {"program: other"}).or_insert(0) += 1;
	let want = oracle_run(prog);
	if imp != want && out.failure.is_none() {out.failure = Some((prog.to_vec(), format!("the property requires {want}; the assembler produced {imp}")));}
	(hash_result(h, &imp), imp.starts_with("ok"))
}

fn real_enum(dirs: &DirectiveList, base: u32, depth: usize, pre: &[usize]) -> EnumOut
{
	let mut out = EnumOut{digest: 0, nodes: 0, failure: None, hist: BTreeMap::new()};
	let mut prog: Vec<St> = Vec::new();
	let mut h = FNV_INIT;
	for (t, &i) in pre.iter().enumerate()
	{
		prog.push(op_at(base, t, i));
		let (h2, ok) = enum_node(dirs, &prog, h, &mut out);
		h = h2;
		if !ok {out.digest = h; return out;}
	}
	out.digest = enum_go(dirs, base, depth, &mut prog, h, &mut out);
	out
}

fn pre_text(pre: &[usize]) -> String
{
	if pre.is_empty() {"-".to_owned()} else {pre.iter().map(|i| i.to_string()).collect::<Vec<_>>().join(",")}
}

/// digest mismatch below `pre`: find the first differing program and report it as text
fn bisect(cx: &mut Cx, dirs: &DirectiveList, base: u32, depth: usize, pre: Vec<usize>)
{
	let mut pre = pre;
	loop
	{
		let prog: Vec<St> = pre.iter().enumerate().map(|(t, &i)| op_at(base, t, i)).collect();
		let reply = cx.model.ask(&format!("seg run {}", ops_text(&prog)));
		let before = cx.report.disagreements_total;
		check_prog(cx, dirs, &prog, &reply);
		if cx.report.disagreements_total > before || pre.len() >= depth {return;}
		let mut next = None;
		for i in 0..26
		{
			let mut p = pre.clone();
			p.push(i);
			let m = cx.model.ask(&format!("seg enum {base} {depth} {}", pre_text(&p)));
			let r = real_enum(dirs, base, depth, &p);
			if m != format!("{:016x}", r.digest) {next = Some(p); break;}
		}
		match next {Some(p) => pre = p, None => return}
	}
}

fn check_enum(cx: &mut Cx, dirs: &DirectiveList, base: u32, depth: usize, pre: &[usize], model_digest: &str, out: EnumOut)
{
	cx.report.cases(out.nodes);
	cx.report.distinct_key(out.digest);
	for (k, v) in &out.hist {cx.report.hit_n(k, *v);}
	cx.report.hit_n("enumerated programs", out.nodes);
	if let Some((prog, msg)) = out.failure {cx.report.oracle_fail(format!("run {}", ops_text(&prog)), msg);}
	if model_digest != format!("{:016x}", out.digest)
	{
		let before = cx.report.disagreements_total;
		bisect(cx, dirs, base, depth, pre.to_vec());
		if cx.report.disagreements_total == before
		{
			cx.report.disagree("model.seg.enum", format!("enum {base} {depth} {}", pre_text(pre)), model_digest, format!("{:016x}", out.digest));
		}
	}
}

fn exhaustive(cx: &mut Cx, dirs: &DirectiveList, depth: usize)
{
	let bases = [0x100u32, 0xFFFF_FFF8];
	// split at the first two statements so that the work spreads over the workers
	let mut tasks: Vec<(u32, Vec<usize>)> = Vec::new();
	for &b in &bases {for i in 0..26 {tasks.push((b, vec![i]));}}
	let next = AtomicUsize::new(0);
	let results: Mutex<Vec<(usize, String, EnumOut)>> = Mutex::new(Vec::new());
	std::thread::scope(|s|
	{
		for _ in 0..4
		{
			s.spawn(||
			{
				let dirs = DirectiveList::generate();
				let mut model = Model::spawn();
				loop
				{
					let k = next.fetch_add(1, Ordering::SeqCst);
					if k >= tasks.len() {break;}
					let (base, pre) = &tasks[k];
					let m = model.ask(&format!("seg enum {base} {depth} {}", pre_text(pre)));
					let out = real_enum(&dirs, *base, depth, pre);
					results.lock().unwrap().push((k, m, out));
				}
			});
		}
	});
	let mut results = results.into_inner().unwrap();
	results.sort_by_key(|r| r.0);
	cx.model.requests += results.len() as u64;
	for (k, m, out) in results {let (base, pre) = tasks[k].clone(); check_enum(cx, dirs, base, depth, &pre, &m, out);}
}

// ------------------------------------------------------------------------------------------------
// random long programs

fn gen_prog(rng: &mut Rng, n: usize) -> Vec<St>
{
	let centre: u64 = match rng.below(4) {0 => 0, 1 => 0xFFFF_FFFF, 2 => 0x1000_0000, _ => rng.below(1 << 32)};
	let spread = *rng.pick(&[12i64, 40, 200]);
	let mut prog = Vec::with_capacity(n);
	let mode = |rng: &mut Rng| match rng.below(10) {0..=4 => Mode::Imm, 5..=7 => Mode::Local, _ => Mode::Global};
	for _ in 0..n
	{
		let st = match rng.below(100)
		{
			0..=21 => St::Addr((centre as i64 + rng.range(-spread, spread)).clamp(0, 0xFFFF_FFFF) as u32),
			22..=36 => St::Bytes((0..rng.range(0, 6)).map(|_| if rng.chance(1, 2) {*rng.pick(b"abcxyzABC019")} else {rng.next() as u8}).collect()),
			37..=44 => St::Align(*rng.pick(&[1u32, 2, 4, 8, 16])),
			45..=54 => St::Du(vec![rng.next() as u8], mode(rng)),
			55..=64 => St::Du(vec![rng.next() as u8, rng.next() as u8], mode(rng)),
			65..=76 => St::Du((0..4).map(|_| rng.next() as u8).collect(), mode(rng)),
			77..=84 => St::Nop,
			85..=92 => St::Udf(rng.next() as u8, mode(rng)),
			_ => St::UdfW(rng.next() as u16, mode(rng)),
		};
		// `.du16 xxDE` and friends would be re-parsed as UDF from the op text; keep the program canonical
		let st = St::parse_op(&st.op()).unwrap_or(st);
		prog.push(st);
	}
	prog
}

// ------------------------------------------------------------------------------------------------
// the region API called directly: `change_segment`, `ActiveSegment::write` / `write_at`, `close_segment`.
// Assembly text reaches `write_at` only with a statement's own placeholder (overwrite inside the buffer); its two other
// paths (overwrite + append, append at the cursor) and its overflow refusal are public API. Input: `api <op>;<op>;…`.

#[derive(Clone, Debug)]
enum AOp {Sel(u32), Wr(Vec<u8>), Wat(u32, Vec<u8>), Close}

impl AOp
{
	fn op(&self) -> String
	{
		match self {AOp::Sel(a) => format!("sel:{a}"), AOp::Wr(d) => format!("wr:{}", hex(d)), AOp::Wat(a, d) => format!("wat:{a}:{}", hex(d)), AOp::Close => "cl".to_owned()}
	}

	fn parse(s: &str) -> Option<AOp>
	{
		let w: Vec<&str> = s.split(':').collect();
		match w.as_slice()
		{
			["sel", a] => Some(AOp::Sel(a.parse().ok()?)),
			["wr", d] => Some(AOp::Wr(unhex(d)?)),
			["wat", a, d] => Some(AOp::Wat(a.parse().ok()?, unhex(d)?)),
			["cl"] => Some(AOp::Close),
			_ => None,
		}
	}
}

fn seg_err(e: &trion::asm::SegmentError) -> String {classify(e)}

fn dump_map(ctx: &Context) -> String
{
	let mut img = String::from("[");
	for (i, (r, d)) in ctx.output().iter().enumerate()
	{
		if i > 0 {img.push(',');}
		img.push_str(&format!("{:08x}:{}", r.get_first(), hex(d)));
	}
	img.push(']');
	img
}

fn real_api(dirs: &DirectiveList, ops: &[AOp]) -> String
{
	let mut outs: Vec<String> = Vec::new();
	let mut ctx = Context::new(&Arm6M, dirs);
	for op in ops
	{
		let r = guarded(|| match op
		{
			AOp::Sel(a) => match ctx.change_segment(*a) {Ok(_) => "ok".to_owned(), Err(e) => seg_err(&e)},
			AOp::Wr(d) => match ctx.active_mut() {None => "inactive".to_owned(), Some(s) => match s.write(d) {Ok(()) => "ok".to_owned(), Err(e) => seg_err(&e)}},
			AOp::Wat(a, d) => match ctx.active_mut() {None => "inactive".to_owned(), Some(s) => match s.write_at(*a, d) {Ok(()) => "ok".to_owned(), Err(e) => seg_err(&e)}},
			AOp::Close => match ctx.close_segment() {Ok(_) => "ok".to_owned(), Err(e) => seg_err(&e)},
		});
		match r
		{
			Ok(o) => outs.push(o),
			Err(_) => {outs.push("panic".to_owned()); return format!("{} | panic | panic", outs.join(","));},
		}
	}
	let active = match guarded(|| ctx.active().map(|s| (s.base_addr(), s.curr_addr(), s.len(), s.remaining(), s.has_remaining(s.remaining()), s.has_remaining(s.remaining() + 1), ctx.curr_addr())))
	{
		Err(_) => "panic".to_owned(),
		Ok(None) => "-".to_owned(),
		Ok(Some((b, c, l, r, fits, over, c2))) => if fits && !over && c2 == Some(c) {format!("{b:08x}:{c}:{l}:{r}")} else {format!("{b:08x}:{c}:{l}:{r}:inconsistent-accessors")},
	};
	format!("{} | {active} | {}", outs.join(","), dump_map(&ctx))
}

/// what the documentation of the API promises, over a byte dictionary: a region never grows into an occupied address or
/// past 0xFFFFFFFF, a refused call changes nothing, `write_at` puts exactly the given bytes at the given address of the
/// region being written and leaves every other byte (of this and of all closed regions) as it was
fn oracle_api(ops: &[AOp]) -> Option<String>
{
	let mut closed: BTreeMap<u32, u8> = BTreeMap::new();
	let mut active: Option<(u32, Vec<u8>, u64)> = None; // base, bytes, capacity
	let mut outs = Vec::new();
	fn commit(closed: &mut BTreeMap<u32, u8>, active: &mut Option<(u32, Vec<u8>, u64)>)
	{
		if let Some((b, d, _)) = active.take() {for (k, x) in d.iter().enumerate() {closed.insert(b + k as u32, *x);}}
	}
	for op in ops
	{
		match op
		{
			AOp::Sel(a) =>
			{
				if let Some((b, d, _)) = &active {if *b == *a && d.is_empty() {outs.push("ok".to_owned()); continue;}}
				commit(&mut closed, &mut active);
				if closed.contains_key(a) {outs.push(format!("occupied {a:08x}")); continue;}
				let cap = closed.range(*a..).next().map(|(k, _)| (*k - *a) as u64).unwrap_or((1u64 << 32) - *a as u64);
				active = Some((*a, Vec::new(), cap));
				outs.push("ok".to_owned());
			},
			AOp::Wr(d) => match &mut active
			{
				None => outs.push("inactive".to_owned()),
				Some((_, buf, cap)) =>
				{
					let have = *cap - buf.len() as u64;
					if d.len() as u64 > have {outs.push(format!("overflow {} {have}", d.len()));} else {buf.extend_from_slice(d); outs.push("ok".to_owned());}
				},
			},
			AOp::Wat(a, d) => match &mut active
			{
				None => outs.push("inactive".to_owned()),
				Some((b, buf, cap)) =>
				{
					// precondition of the call: the address lies in the written part of the region or at its cursor
					let cur = (*b as u64 + buf.len() as u64).min(0xFFFF_FFFF);
					if (*a as u64) < *b as u64 || *a as u64 > cur || (*a - *b) as usize > buf.len() {return None;}
					let start = (*a - *b) as usize;
					let grow = (start + d.len()).saturating_sub(buf.len());
					let have = *cap - buf.len() as u64;
					if grow as u64 > have {outs.push(format!("overflow {grow} {have}")); continue;}
					if buf.len() < start + d.len() {buf.resize(start + d.len(), 0);}
					buf[start..start + d.len()].copy_from_slice(d);
					outs.push("ok".to_owned());
				},
			},
			AOp::Close => {commit(&mut closed, &mut active); outs.push("ok".to_owned());},
		}
	}
	let act = match &active
	{
		None => "-".to_owned(),
		Some((b, d, cap)) => format!("{b:08x}:{}:{}:{}", (*b as u64 + d.len() as u64).min(0xFFFF_FFFF), d.len(), *cap - d.len() as u64),
	};
	let mut img = String::from("[");
	let mut prev: Option<u32> = None;
	for (&a, &b) in &closed
	{
		if prev.map(|p| p as u64 + 1) != Some(a as u64)
		{
			if prev.is_some() {img.push(',');}
			img.push_str(&format!("{a:08x}:"));
		}
		img.push_str(&format!("{b:02x}"));
		prev = Some(a);
	}
	img.push(']');
	Some(format!("{} | {act} | {img}", outs.join(",")))
}

fn check_api(cx: &mut Cx, dirs: &DirectiveList, ops: &[AOp], reply: &str)
{
	let text = ops.iter().map(|o| o.op()).collect::<Vec<_>>().join(";");
	let input = format!("api {text}");
	let imp = real_api(dirs, ops);
	cx.report.case(Some(&imp));
	for o in imp.split(" | ").next().unwrap_or("").split(',')
	{
		cx.report.hit(&format!("api call: {}", o.split(' ').next().unwrap_or("")));
	}
	cx.report.compare("model.seg.api", &input, reply, &imp);
	match oracle_api(ops)
	{
		None => cx.report.hit("api program: precondition of write_at violated (model comparison only)"),
		Some(want) => if imp != want {cx.report.oracle_fail(input, format!("the API contract requires {want}; the implementation produced {imp}"));},
	}
}

fn gen_api(rng: &mut Rng) -> Vec<AOp>
{
	let centre: u64 = match rng.below(3) {0 => 0x100, 1 => 0xFFFF_FFF0, _ => rng.below(1 << 32)};
	let n = 2 + rng.below(14) as usize;
	let mut ops = Vec::new();
	// shadow of the active region for choosing interesting addresses
	let (mut base, mut len): (Option<u64>, u64) = (None, 0);
	let bytes = |rng: &mut Rng, n: u64| -> Vec<u8> {(0..n).map(|_| rng.next() as u8).collect()};
	for _ in 0..n
	{
		let op = match if base.is_none() && !rng.chance(1, 6) {0} else {rng.below(10)}
		{
			0 | 1 => {let a = (centre as i64 + rng.range(-12, 20)).clamp(0, 0xFFFF_FFFF) as u32; AOp::Sel(a)},
			2 | 3 | 4 => {let k = rng.below(6); AOp::Wr(bytes(rng, k))},
			5 if rng.chance(1, 2) => AOp::Close,
			_ =>
			{
				let k = rng.below(7);
				let a = match base
				{
					// inside the buffer, at the cursor, and (rarely) outside the allowed range
					Some(b) if !rng.chance(1, 12) => (b + rng.below(len + 1)).min(0xFFFF_FFFF) as u32,
					Some(b) => (b as i64 + rng.range(-2, len as i64 + 3)).clamp(0, 0xFFFF_FFFF) as u32,
					None => centre.min(0xFFFF_FFFF) as u32,
				};
				AOp::Wat(a, bytes(rng, k))
			},
		};
		match &op
		{
			AOp::Sel(a) => {if !(base == Some(*a as u64) && len == 0) {base = Some(*a as u64); len = 0;}},
			AOp::Wr(d) => len += d.len() as u64,
			AOp::Wat(a, d) => if let Some(b) = base {len = len.max((*a as u64).saturating_sub(b) + d.len() as u64);},
			AOp::Close => {base = None; len = 0;},
		}
		ops.push(op);
	}
	// half of the programs end with the region still open: its accessors (base, cursor, length, remaining) are compared
	if rng.chance(1, 2) {ops.push(AOp::Close);}
	ops
}

fn api_section(cx: &mut Cx, dirs: &DirectiveList)
{
	let fixed = [
		"sel:256;wr:0102;wat:257:aabbcc;wat:259:dd;wat:256:ee;cl",
		"sel:256;wr:0102;wat:258:aabb;wat:258:;wat:260:;cl",
		"sel:262;wr:01;sel:256;wr:010203040506;wat:261:0708;wat:260:0708;wat:262:;wat:262:09;cl",
		"sel:4294967295;wr:01;wat:4294967295:02;wat:4294967295:0203;cl",
		"sel:4294967294;wat:4294967294:0102;wat:4294967295:03;wat:4294967295:0304;cl",
		"sel:4294967292;wr:01020304;wat:4294967295:05;wat:4294967295:0506;wr:;wr:00;cl",
		"wat:1:00;wr:00;cl;sel:5;sel:5;wr:aa;sel:5;sel:6;sel:4;wr:bb;wr:cc;cl",
		"sel:5;wat:7:00",
		"sel:5;wr:0000;wat:4:00",
		"sel:5;wr:0000;wat:8:00",
		// the cursor of the region being written stands on an OCCUPIED address (gap filled exactly; saturated top): selecting it is refused
		"sel:16;wr:01020304;sel:8;wr:0102030405060708;sel:16",
		"sel:16;wr:01020304;sel:8;wr:0102030405060708;sel:16;wr:aa;cl",
		"sel:16;wr:01;cl;sel:12;wr:01020304;sel:16;sel:12;sel:17",
		"sel:4294967294;wr:0102;sel:4294967295",
		"sel:4294967295;wr:01;sel:4294967295;wr:02;cl",
		"sel:4294967280;wr:000102030405060708090a0b0c0d0e0f;sel:4294967295;sel:4294967280",
	];
	for f in fixed
	{
		let ops: Vec<AOp> = f.split(';').map(|o| AOp::parse(o).unwrap()).collect();
		let reply = cx.model.ask(&format!("seg api {f}"));
		check_api(cx, dirs, &ops, &reply);
	}
	let n = if cx.thorough() {40_000} else {4_000};
	let progs: Vec<Vec<AOp>> = (0..n).map(|_| {let mut r = cx.rng.fork(); gen_api(&mut r)}).collect();
	cx.report.hit_n("api programs", n);
	for chunk in progs.chunks(1024)
	{
		let lines: Vec<String> = chunk.iter().map(|p| format!("seg api {}", p.iter().map(|o| o.op()).collect::<Vec<_>>().join(";"))).collect();
		let replies = cx.model.ask_many(&lines);
		for (p, r) in chunk.iter().zip(replies.iter()) {check_api(cx, dirs, p, r);}
	}
}

pub fn run(_id: &str, cx: &mut Cx)
{
	cx.report.rule = "exhaustive: every program of length <= depth over a 26-statement alphabet (8 `.addr` targets, .dhex/.dstr of 1-4 bytes, .du8/.du16/.du32/NOP/UDF.W with a known value, \
.du8/.du16/.du32/UDF/UDF.W with a forward local constant, .du8/.du16 resolved at finalize, .align 2/4) in the 8-address windows at 0x100 and 0xFFFFFFF8, not extended past a failing statement; \
each program is assembled from TEXT by the real Context (assemble, close_segment, finalize) and compared with the model (errors with statement index and kind, final image) and with a byte-level shadow oracle. \
random: 40-statement programs at both ends of the address space and elsewhere. non-trivial = every program; distinct = distinct (errors, image) results / per-subtree digests".to_owned();
	let dirs = DirectiveList::generate();

	if let Some(input) = cx.replay.clone()
	{
		let w: Vec<&str> = input.splitn(2, ' ').collect();
		match w.as_slice()
		{
			["run"] | ["run", ""] =>
			{
				let reply = cx.model.ask("seg run");
				check_prog(cx, &dirs, &[], &reply);
			},
			["run", ops] =>
			{
				let prog: Option<Vec<St>> = ops.split(';').filter(|s| !s.is_empty()).map(St::parse_op).collect();
				match prog
				{
					None => cx.report.oracle_fail(input.clone(), "unrecognised replay input"),
					Some(prog) =>
					{
						let reply = cx.model.ask(&format!("seg run {}", ops_text(&prog)));
						check_prog(cx, &dirs, &prog, &reply);
					},
				}
			},
			["procfile", room] if room.parse::<u32>().is_ok() => crate::asm::check_procfile(cx, room.parse().unwrap(), &cx.work.join("procfile")),
			["api"] | ["api", ""] => {let reply = cx.model.ask("seg api"); check_api(cx, &dirs, &[], &reply);},
			["api", ops] =>
			{
				match ops.split(';').filter(|s| !s.is_empty()).map(AOp::parse).collect::<Option<Vec<AOp>>>()
				{
					None => cx.report.oracle_fail(input.clone(), "unrecognised replay input"),
					Some(prog) =>
					{
						let reply = cx.model.ask(&format!("seg api {}", prog.iter().map(|o| o.op()).collect::<Vec<_>>().join(";")));
						check_api(cx, &dirs, &prog, &reply);
					},
				}
			},
			["enum", rest] =>
			{
				let f: Vec<&str> = rest.split(' ').collect();
				if f.len() != 3 {cx.report.oracle_fail(input.clone(), "unrecognised replay input"); return;}
				let (base, depth) = (f[0].parse::<u32>().unwrap(), f[1].parse::<usize>().unwrap());
				let pre: Vec<usize> = if f[2] == "-" {Vec::new()} else {f[2].split(',').map(|s| s.parse().unwrap()).collect()};
				let m = cx.model.ask(&format!("seg enum {base} {depth} {}", f[2]));
				let out = real_enum(&dirs, base, depth, &pre);
				check_enum(cx, &dirs, base, depth, &pre, &m, out);
			},
			_ => cx.report.oracle_fail(input.clone(), "unrecognised replay input"),
		}
		return;
	}

	// the design-time witnesses of F10, F11, F12, F22 and a few boundary programs
	let fixed = [
		"sel:260;plc:01000000;sel:256;plc:00bf;plc:00bf;plc:00bf",
		"sel:260;defl:0100;sel:256;plc:07000000",
		"sel:256;plc:01;sel:256;plc:02",
		"sel:4294967295;plc:01;plc:02",
		"sel:4294967294;plc:3412;plc:55",
		"sel:4294967294;defl:3412;al:2;al:4",
		"plc:01",
		"sel:257;al:4;defl:0102;app:aa;al:2;defg:77;sel:300;defg:aabb;sel:262;app:6162",
		"sel:4294967292;defg:0102;defl:aabb;sel:4294967290;app:0102;app:03",
		"sel:16;plc:01020304;sel:8;app:0102030405060708;sel:16",
		"sel:16;plc:01020304;sel:8;defl:01020304;plc:05060708;sel:16;sel:32;plc:01",
		"sel:4294967294;plc:0102;sel:4294967295",
		"sel:4294967292;defg:01020304;sel:4294967295;plc:01",
	];
	for f in fixed
	{
		let prog: Vec<St> = f.split(';').map(|o| St::parse_op(o).unwrap()).collect();
		let reply = cx.model.ask(&format!("seg run {}", ops_text(&prog)));
		check_prog(cx, &dirs, &prog, &reply);
		cx.report.sample(format!("run {f} -> {reply}"));
	}
	// a LARGE region (more than 64 KiB written into one region: a long data statement, `.align 0x20000` after one byte) closed by
	// a further `.addr`, then small regions: above it, directly behind it, and downwards into a small gap below it; the new region
	// starts empty at exactly the selected address
	{
		let big: String = (0..70_000u32).map(|i| format!("{:02x}", (i * 7 + 3) as u8)).collect();
		let large = [
			format!("sel:4096;app:{big};sel:1048576;plc:0102;app:aabb;sel:4090;plc:01020304;plc:0506;plc:07;sel:74096;plc:11"),
			format!("sel:4096;app:{big};sel:4092;defl:01020304;plc:05;sel:2000000;defg:aabb;app:cc"),
			"sel:256;plc:01;al:131072;plc:02;sel:200000;plc:0304;al:4;plc:05;sel:250;plc:0a0b0c0d;plc:0e0f;plc:10".to_owned(),
			"sel:1;plc:01;al:131072;sel:0;plc:aa;plc:bb;sel:131072;plc:cc;sel:300000;al:65536;plc:dd;sel:299990;app:00112233445566778899;app:aa".to_owned(),
			format!("sel:4096;app:{big};sel:4096;plc:01"),
		];
		for f in &large
		{
			let prog: Vec<St> = f.split(';').map(|o| St::parse_op(o).unwrap()).collect();
			let reply = cx.model.ask(&format!("seg run {}", ops_text(&prog)));
			check_prog(cx, &dirs, &prog, &reply);
			cx.report.hit("program with a region > 64 KiB followed by other regions");
		}
		let api_large = [
			format!("sel:4096;wr:{big};sel:1048576;wr:0102;wat:1048576:aa;sel:4090;wr:01020304;wr:0506;wr:07;wat:4092:ffee;cl"),
			format!("sel:4096;wr:{big};wat:4100:0000;sel:4092;wr:0102;wr:0304;wr:05;sel:74096;wr:11;wr:22;cl"),
			format!("sel:4096;wr:{big};cl;sel:0;wr:01;sel:4095;wr:aa;wr:bb;sel:74096;wat:74096:cc;cl"),
			format!("sel:4294897296;wr:{big};sel:4294897290;wr:010203040506;wr:07;sel:4294897296;cl"),
			format!("sel:4096;wr:{big};sel:200000;wr:{big};sel:100000;wr:0102"),
		];
		for f in &api_large
		{
			let ops: Vec<AOp> = f.split(';').map(|o| AOp::parse(o).unwrap()).collect();
			let reply = cx.model.ask(&format!("seg api {f}"));
			check_api(cx, &dirs, &ops, &reply);
			cx.report.hit("api program with a region > 64 KiB followed by other regions");
		}
		// random histories around a large region
		for _ in 0..if cx.thorough() {200} else {24}
		{
			let mut rng = cx.rng.fork();
			let base = 4096 + rng.below(64) as u32;
			let len = 65_537 + rng.below(9000) as usize;
			let data: Vec<u8> = (0..len).map(|i| (i as u8).wrapping_mul(5).wrapping_add(rng.0 as u8)).collect();
			let mut ops = vec![AOp::Sel(base), AOp::Wr(data)];
			for _ in 0..1 + rng.below(5)
			{
				let a = match rng.below(4) {0 => base - 1 - rng.below(8) as u32, 1 => base + len as u32 + rng.below(3) as u32, 2 => base + rng.below(len as u64) as u32, _ => 500_000 + rng.below(16) as u32};
				ops.push(AOp::Sel(a));
				for _ in 0..rng.below(4) {let k = rng.below(6); ops.push(AOp::Wr((0..k).map(|_| rng.next() as u8).collect()));}
				if rng.chance(1, 2) {ops.push(AOp::Wat(a, vec![0xEE]));}
			}
			if rng.chance(1, 2) {ops.push(AOp::Close);}
			let text = ops.iter().map(|o| o.op()).collect::<Vec<_>>().join(";");
			let reply = cx.model.ask(&format!("seg api {text}"));
			check_api(cx, &dirs, &ops, &reply);
			cx.report.hit("api program with a region > 64 KiB followed by other regions");
		}
	}

	api_section(cx, &dirs);
	// `.dfile` of a file longer than its metadata length into a region with little room below a closed region (shared with C06)
	for room in [4u32, 12, 1000] {crate::asm::check_procfile(cx, room, &cx.work.join("procfile"));}

	let depth = if cx.thorough() {6} else {5};
	exhaustive(cx, &dirs, depth);
	cx.report.exhaustive = true;
	cx.report.notes.push(format!("exhaustive: all programs of length <= {depth} in the windows at 0x00000100 and 0xFFFFFFF8"));

	let nprog = if cx.thorough() {60_000} else {6_000};
	let progs: Vec<Vec<St>> = (0..nprog).map(|i| {let mut r = cx.rng.fork(); gen_prog(&mut r, if i % 4 == 0 {120} else {40})}).collect();
	cx.report.hit_n("random programs", nprog);
	for chunk in progs.chunks(1024)
	{
		let lines: Vec<String> = chunk.iter().map(|p| format!("seg run {}", ops_text(p))).collect();
		let replies = cx.model.ask_many(&lines);
		for (p, r) in chunk.iter().zip(replies.iter()) {check_prog(cx, &dirs, p, r);}
	}
}
