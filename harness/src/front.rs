//! C04 / C19 — the instruction front end (`src/arm6m/mod.rs`) and the disassembly text
//! (`impl Display for InstrAt`) against the Lean models `Trion.Front` / `Trion.Show`.
//!
//! Shared machinery: serialisation of argument trees and instructions for the line protocol, the real
//! `evaluate` run in an emulated constant environment (so that the model's `eval` parameter is the REAL
//! evaluator), the staged prediction "model `assemble` + real `encode`" of what the whole pipeline does
//! with one instruction statement, and the real pipeline itself (`Context` exactly as `bin/assembler.rs`).
// catch-all arms keep the harness compiling when the crate adds a variant to one of its error enums (the outcome is then `unknown:<Debug>`)
#![allow(unreachable_patterns)]
use std::error::Error;
use std::fmt::Write as _;
use std::path::PathBuf;

use trion::arm6m::Arm6M;
use trion::arm6m::asm::{ImmReg, Instruction};
use trion::arm6m::cond::Condition;
use trion::arm6m::reg::Register;
use trion::arm6m::regset::RegisterSet;
use trion::arm6m::sysreg::SystemReg;
use trion::asm::Context;
use trion::asm::arcob::Arcob;
use trion::asm::constant::Realm;
use trion::asm::directive::DirectiveList;
use trion::asm::simplify::{evaluate, EvalError, Evaluation};
use trion::text::parse::{Argument, ElementValue, Parser};
use trion::text::token::Number;

use crate::common::*;

#[path = "front_c04.rs"]
mod c04;
#[path = "front_c19.rs"]
mod c19;

pub fn run(id: &str, cx: &mut Cx)
{
	match id
	{
		"C04" => c04::run(cx),
		"C19" => c19::run(cx),
		_ => unreachable!(),
	}
}

pub fn dirs() -> &'static DirectiveList
{
	Box::leak(Box::new(DirectiveList::generate()))
}

// ---------------------------------------------------------------------------------------------------
// argument trees

pub fn ser_arg(a: &Argument, o: &mut String)
{
	fn bin(op: &str, l: &Argument, r: &Argument, o: &mut String)
	{
		o.push_str("b ");
		o.push_str(op);
		o.push(' ');
		ser_arg(l, o);
		o.push(' ');
		ser_arg(r, o);
	}
	match a
	{
		Argument::Constant(Number::Integer(v)) => {let _ = write!(o, "c {v}");},
		Argument::Identifier(s) => {let _ = write!(o, "i {}", hex(s.as_bytes()));},
		Argument::String(s) => {let _ = write!(o, "s {}", hex(s.as_bytes()));},
		Argument::Add{lhs, rhs} => bin("add", lhs, rhs, o),
		Argument::Subtract{lhs, rhs} => bin("sub", lhs, rhs, o),
		Argument::Multiply{lhs, rhs} => bin("mul", lhs, rhs, o),
		Argument::Divide{lhs, rhs} => bin("div", lhs, rhs, o),
		Argument::Modulo{lhs, rhs} => bin("mod", lhs, rhs, o),
		Argument::BitAnd{lhs, rhs} => bin("and", lhs, rhs, o),
		Argument::BitOr{lhs, rhs} => bin("or", lhs, rhs, o),
		Argument::BitXor{lhs, rhs} => bin("xor", lhs, rhs, o),
		Argument::LeftShift{lhs, rhs} => bin("shl", lhs, rhs, o),
		Argument::RightShift{lhs, rhs} => bin("shr", lhs, rhs, o),
		Argument::Negate(x) => {o.push_str("n "); ser_arg(x, o);},
		Argument::Not(x) => {o.push_str("t "); ser_arg(x, o);},
		Argument::Address(x) => {o.push_str("a "); ser_arg(x, o);},
		Argument::Sequence(xs) =>
		{
			let _ = write!(o, "q {}", xs.len());
			for x in xs {o.push(' '); ser_arg(x, o);}
		},
		Argument::Function{name, args} =>
		{
			let _ = write!(o, "f {} {}", hex(name.as_bytes()), args.len());
			for x in args {o.push(' '); ser_arg(x, o);}
		},
	}
}

pub fn arg_str(a: &Argument) -> String
{
	let mut s = String::new();
	ser_arg(a, &mut s);
	s
}

fn arc(s: &str) -> Arcob<'static, str>
{
	Arcob::Arced(std::sync::Arc::from(s))
}

pub fn de_arg<'a>(t: &mut impl Iterator<Item = &'a str>) -> Option<Argument<'static>>
{
	fn list<'a>(n: usize, t: &mut impl Iterator<Item = &'a str>) -> Option<Vec<Argument<'static>>>
	{
		(0..n).map(|_| de_arg(t)).collect()
	}
	let k = t.next()?;
	Some(match k
	{
		"c" => Argument::Constant(Number::Integer(t.next()?.parse().ok()?)),
		"i" => Argument::Identifier(arc(std::str::from_utf8(&unhex(t.next()?)?).ok()?)),
		"s" => Argument::String(arc(std::str::from_utf8(&unhex(t.next()?)?).ok()?)),
		"b" =>
		{
			let op = t.next()?;
			let lhs = Box::new(de_arg(t)?);
			let rhs = Box::new(de_arg(t)?);
			match op
			{
				"add" => Argument::Add{lhs, rhs},
				"sub" => Argument::Subtract{lhs, rhs},
				"mul" => Argument::Multiply{lhs, rhs},
				"div" => Argument::Divide{lhs, rhs},
				"mod" => Argument::Modulo{lhs, rhs},
				"and" => Argument::BitAnd{lhs, rhs},
				"or" => Argument::BitOr{lhs, rhs},
				"xor" => Argument::BitXor{lhs, rhs},
				"shl" => Argument::LeftShift{lhs, rhs},
				"shr" => Argument::RightShift{lhs, rhs},
				_ => return None,
			}
		},
		"n" => Argument::Negate(Box::new(de_arg(t)?)),
		"t" => Argument::Not(Box::new(de_arg(t)?)),
		"a" => Argument::Address(Box::new(de_arg(t)?)),
		"q" =>
		{
			let n = t.next()?.parse().ok()?;
			Argument::Sequence(list(n, t)?)
		},
		"f" =>
		{
			let name = arc(std::str::from_utf8(&unhex(t.next()?)?).ok()?);
			let n = t.next()?.parse().ok()?;
			Argument::Function{name, args: list(n, t)?}
		},
		_ => return None,
	})
}

// ---------------------------------------------------------------------------------------------------
// instructions

fn ir(x: &ImmReg) -> String
{
	match x
	{
		ImmReg::Immediate(v) => format!("i {v}"),
		ImmReg::Register(r) => format!("r {}", u8::from(*r)),
	}
}

pub fn ser_instr(i: &Instruction) -> String
{
	let r = |r: &Register| u8::from(*r);
	let b = |b: &bool| if *b {1} else {0};
	match i
	{
		Instruction::Adc{dst, rhs} => format!("adc {} {}", r(dst), r(rhs)),
		Instruction::Add{flags, dst, lhs, rhs} => format!("add {} {} {} {}", b(flags), r(dst), r(lhs), ir(rhs)),
		Instruction::Adr{dst, off} => format!("adr {} {off}", r(dst)),
		Instruction::And{dst, rhs} => format!("and {} {}", r(dst), r(rhs)),
		Instruction::Asr{dst, value, shift} => format!("asr {} {} {}", r(dst), r(value), ir(shift)),
		Instruction::B{cond, off} => format!("b {} {off}", u8::from(*cond)),
		Instruction::Bic{dst, rhs} => format!("bic {} {}", r(dst), r(rhs)),
		Instruction::Bkpt{info} => format!("bkpt {info}"),
		Instruction::Bl{off} => format!("bl {off}"),
		Instruction::Blx{off} => format!("blx {}", r(off)),
		Instruction::Bx{off} => format!("bx {}", r(off)),
		Instruction::Cmn{lhs, rhs} => format!("cmn {} {}", r(lhs), r(rhs)),
		Instruction::Cmp{lhs, rhs} => format!("cmp {} {}", r(lhs), ir(rhs)),
		Instruction::Cps{enable} => format!("cps {}", b(enable)),
		Instruction::Dmb => "dmb".to_owned(),
		Instruction::Dsb => "dsb".to_owned(),
		Instruction::Eor{dst, rhs} => format!("eor {} {}", r(dst), r(rhs)),
		Instruction::Isb => "isb".to_owned(),
		Instruction::Ldm{addr, registers} => format!("ldm {} {}", r(addr), registers.get_bits()),
		Instruction::Ldr{dst, addr, off} => format!("ldr {} {} {}", r(dst), r(addr), ir(off)),
		Instruction::Ldrb{dst, addr, off} => format!("ldrb {} {} {}", r(dst), r(addr), ir(off)),
		Instruction::Ldrh{dst, addr, off} => format!("ldrh {} {} {}", r(dst), r(addr), ir(off)),
		Instruction::Ldrsb{dst, addr, off} => format!("ldrsb {} {} {}", r(dst), r(addr), r(off)),
		Instruction::Ldrsh{dst, addr, off} => format!("ldrsh {} {} {}", r(dst), r(addr), r(off)),
		Instruction::Lsl{dst, value, shift} => format!("lsl {} {} {}", r(dst), r(value), ir(shift)),
		Instruction::Lsr{dst, value, shift} => format!("lsr {} {} {}", r(dst), r(value), ir(shift)),
		Instruction::Mov{flags, dst, src} => format!("mov {} {} {}", b(flags), r(dst), ir(src)),
		Instruction::Mrs{dst, src} => format!("mrs {} {}", r(dst), sysm_of(*src)),
		Instruction::Msr{dst, src} => format!("msr {} {}", sysm_of(*dst), r(src)),
		Instruction::Mul{dst, rhs} => format!("mul {} {}", r(dst), r(rhs)),
		Instruction::Mvn{dst, value} => format!("mvn {} {}", r(dst), r(value)),
		Instruction::Nop => "nop".to_owned(),
		Instruction::Orr{dst, rhs} => format!("orr {} {}", r(dst), r(rhs)),
		Instruction::Pop{registers} => format!("pop {}", registers.get_bits()),
		Instruction::Push{registers} => format!("push {}", registers.get_bits()),
		Instruction::Rev{dst, value} => format!("rev {} {}", r(dst), r(value)),
		Instruction::Rev16{dst, value} => format!("rev16 {} {}", r(dst), r(value)),
		Instruction::Revsh{dst, value} => format!("revsh {} {}", r(dst), r(value)),
		Instruction::Ror{dst, rhs} => format!("ror {} {}", r(dst), r(rhs)),
		Instruction::Rsb{dst, lhs} => format!("rsb {} {}", r(dst), r(lhs)),
		Instruction::Sbc{dst, rhs} => format!("sbc {} {}", r(dst), r(rhs)),
		Instruction::Sev => "sev".to_owned(),
		Instruction::Stm{addr, registers} => format!("stm {} {}", r(addr), registers.get_bits()),
		Instruction::Str{src, addr, off} => format!("str {} {} {}", r(src), r(addr), ir(off)),
		Instruction::Strb{src, addr, off} => format!("strb {} {} {}", r(src), r(addr), ir(off)),
		Instruction::Strh{src, addr, off} => format!("strh {} {} {}", r(src), r(addr), ir(off)),
		Instruction::Sub{flags, dst, lhs, rhs} => format!("sub {} {} {} {}", b(flags), r(dst), r(lhs), ir(rhs)),
		Instruction::Svc{info} => format!("svc {info}"),
		Instruction::Sxtb{dst, value} => format!("sxtb {} {}", r(dst), r(value)),
		Instruction::Sxth{dst, value} => format!("sxth {} {}", r(dst), r(value)),
		Instruction::Tst{lhs, rhs} => format!("tst {} {}", r(lhs), r(rhs)),
		Instruction::Udf{info} => format!("udf {info}"),
		Instruction::Udfw{info} => format!("udfw {info}"),
		Instruction::Uxtb{dst, value} => format!("uxtb {} {}", r(dst), r(value)),
		Instruction::Uxth{dst, value} => format!("uxth {} {}", r(dst), r(value)),
		Instruction::Wfe => "wfe".to_owned(),
		Instruction::Wfi => "wfi".to_owned(),
		Instruction::Yield => "yield".to_owned(),
	}
}

pub fn reg(n: u8) -> Register {Register::try_from(n).unwrap()}

/// parse the model's instruction text back into the real type (`None` if a field does not fit the Rust type)
pub fn de_instr(s: &str) -> Option<Instruction>
{
	let w: Vec<&str> = s.split(' ').collect();
	let r = |i: usize| -> Option<Register> {Register::try_from(w.get(i)?.parse::<u8>().ok()?).ok()};
	let b = |i: usize| -> Option<bool> {Some(*w.get(i)? == "1")};
	let n = |i: usize| -> Option<i64> {w.get(i)?.parse::<i64>().ok()};
	let irp = |i: usize| -> Option<ImmReg>
	{
		match *w.get(i)?
		{
			"i" => Some(ImmReg::Immediate(i32::try_from(n(i + 1)?).ok()?)),
			"r" => Some(ImmReg::Register(r(i + 1)?)),
			_ => None,
		}
	};
	let set = |i: usize| -> Option<RegisterSet> {Some(RegisterSet::of(u16::try_from(n(i)?).ok()?))};
	let sys = |i: usize| -> Option<SystemReg> {sysreg_of(u8::try_from(n(i)?).ok()?)};
	Some(match w[0]
	{
		"adc" => Instruction::Adc{dst: r(1)?, rhs: r(2)?},
		"add" => Instruction::Add{flags: b(1)?, dst: r(2)?, lhs: r(3)?, rhs: irp(4)?},
		"adr" => Instruction::Adr{dst: r(1)?, off: u16::try_from(n(2)?).ok()?},
		"and" => Instruction::And{dst: r(1)?, rhs: r(2)?},
		"asr" => Instruction::Asr{dst: r(1)?, value: r(2)?, shift: irp(3)?},
		"b" => Instruction::B{cond: Condition::try_from(u8::try_from(n(1)?).ok()?).ok()?, off: i32::try_from(n(2)?).ok()?},
		"bic" => Instruction::Bic{dst: r(1)?, rhs: r(2)?},
		"bkpt" => Instruction::Bkpt{info: u8::try_from(n(1)?).ok()?},
		"bl" => Instruction::Bl{off: i32::try_from(n(1)?).ok()?},
		"blx" => Instruction::Blx{off: r(1)?},
		"bx" => Instruction::Bx{off: r(1)?},
		"cmn" => Instruction::Cmn{lhs: r(1)?, rhs: r(2)?},
		"cmp" => Instruction::Cmp{lhs: r(1)?, rhs: irp(2)?},
		"cps" => Instruction::Cps{enable: b(1)?},
		"dmb" => Instruction::Dmb,
		"dsb" => Instruction::Dsb,
		"eor" => Instruction::Eor{dst: r(1)?, rhs: r(2)?},
		"isb" => Instruction::Isb,
		"ldm" => Instruction::Ldm{addr: r(1)?, registers: set(2)?},
		"ldr" => Instruction::Ldr{dst: r(1)?, addr: r(2)?, off: irp(3)?},
		"ldrb" => Instruction::Ldrb{dst: r(1)?, addr: r(2)?, off: irp(3)?},
		"ldrh" => Instruction::Ldrh{dst: r(1)?, addr: r(2)?, off: irp(3)?},
		"ldrsb" => Instruction::Ldrsb{dst: r(1)?, addr: r(2)?, off: r(3)?},
		"ldrsh" => Instruction::Ldrsh{dst: r(1)?, addr: r(2)?, off: r(3)?},
		"lsl" => Instruction::Lsl{dst: r(1)?, value: r(2)?, shift: irp(3)?},
		"lsr" => Instruction::Lsr{dst: r(1)?, value: r(2)?, shift: irp(3)?},
		"mov" => Instruction::Mov{flags: b(1)?, dst: r(2)?, src: irp(3)?},
		"mrs" => Instruction::Mrs{dst: r(1)?, src: sys(2)?},
		"msr" => Instruction::Msr{dst: sys(1)?, src: r(2)?},
		"mul" => Instruction::Mul{dst: r(1)?, rhs: r(2)?},
		"mvn" => Instruction::Mvn{dst: r(1)?, value: r(2)?},
		"nop" => Instruction::Nop,
		"orr" => Instruction::Orr{dst: r(1)?, rhs: r(2)?},
		"pop" => Instruction::Pop{registers: set(1)?},
		"push" => Instruction::Push{registers: set(1)?},
		"rev" => Instruction::Rev{dst: r(1)?, value: r(2)?},
		"rev16" => Instruction::Rev16{dst: r(1)?, value: r(2)?},
		"revsh" => Instruction::Revsh{dst: r(1)?, value: r(2)?},
		"ror" => Instruction::Ror{dst: r(1)?, rhs: r(2)?},
		"rsb" => Instruction::Rsb{dst: r(1)?, lhs: r(2)?},
		"sbc" => Instruction::Sbc{dst: r(1)?, rhs: r(2)?},
		"sev" => Instruction::Sev,
		"stm" => Instruction::Stm{addr: r(1)?, registers: set(2)?},
		"str" => Instruction::Str{src: r(1)?, addr: r(2)?, off: irp(3)?},
		"strb" => Instruction::Strb{src: r(1)?, addr: r(2)?, off: irp(3)?},
		"strh" => Instruction::Strh{src: r(1)?, addr: r(2)?, off: irp(3)?},
		"sub" => Instruction::Sub{flags: b(1)?, dst: r(2)?, lhs: r(3)?, rhs: irp(4)?},
		"svc" => Instruction::Svc{info: u8::try_from(n(1)?).ok()?},
		"sxtb" => Instruction::Sxtb{dst: r(1)?, value: r(2)?},
		"sxth" => Instruction::Sxth{dst: r(1)?, value: r(2)?},
		"tst" => Instruction::Tst{lhs: r(1)?, rhs: r(2)?},
		"udf" => Instruction::Udf{info: u8::try_from(n(1)?).ok()?},
		"udfw" => Instruction::Udfw{info: u16::try_from(n(1)?).ok()?},
		"uxtb" => Instruction::Uxtb{dst: r(1)?, value: r(2)?},
		"uxth" => Instruction::Uxth{dst: r(1)?, value: r(2)?},
		"wfe" => Instruction::Wfe,
		"wfi" => Instruction::Wfi,
		"yield" => Instruction::Yield,
		_ => return None,
	})
}

pub fn encode(i: &Instruction) -> Result<Vec<u8>, String>
{
	let mut tmp = [0u8; 4];
	match i.encode(&mut tmp)
	{
		Ok(len) => Ok(tmp[..len].to_vec()),
		Err(e) => Err(crate::errkind::encode_text(&e)),
	}
}

// ---------------------------------------------------------------------------------------------------
// the real `evaluate` in an emulated constant environment

/// constants visible to `evaluate`: `Some(v)` defined, `None` declared but not defined (`Lookup::Deferred`)
pub type Env = Vec<(String, Option<i64>)>;

pub fn env_ctx<'l>(env: &Env, dirs: &'l DirectiveList) -> Context<'l>
{
	// no current file: `evaluate` looks constants up in the global realm, which we fill through the public API
	let mut ctx = Context::new(&Arm6M, dirs);
	for (name, v) in env
	{
		match v
		{
			Some(v) => {let _ = ctx.replace_constant(name, *v, Realm::Global);},
			None => {let _ = ctx.defer_constant(name, Realm::Global);},
		}
	}
	ctx
}

/// `<evalout>` of the line protocol: what the real `evaluate` does to (a copy of) `arg` under `ctx`
pub fn eval_out(arg: &Argument<'static>, ctx: &Context) -> String
{
	let mut a = arg.clone();
	let r = guarded(|| evaluate(&mut a, ctx));
	let mut o = String::new();
	match r
	{
		Err(p) => {let _ = write!(o, "EO {} ", hex(format!("PANIC: {p}").as_bytes()));},
		Ok(Ok(Evaluation::Complete{..})) => o.push_str("C "),
		Ok(Ok(Evaluation::Deferred{cause, ..})) => {let _ = write!(o, "D {} ", hex(cause.as_bytes()));},
		Ok(Err(EvalError::NoSuchVariable{name, ..})) => {let _ = write!(o, "N {} ", hex(name.as_bytes()));},
		Ok(Err(EvalError::BadType{kind, op})) => {let _ = write!(o, "EB {} {} ", u8::from(kind), u8::from(op));},
		Ok(Err(EvalError::Overflow(e))) => {let _ = write!(o, "EO {} ", hex(format!("{e:?}").as_bytes()));},
		Ok(Err(e)) => {let _ = write!(o, "EO {} ", hex(format!("unknown:{e:?}").as_bytes()));},
	}
	ser_arg(&a, &mut o);
	o
}

// ---------------------------------------------------------------------------------------------------
// a one-instruction program and the real pipeline

#[derive(Clone, Debug)]
pub struct Program
{
	pub addr: u32,
	pub name: String,
	pub args: Vec<Argument<'static>>,
	pub line: u32,
	pub col: u32,
	/// constants as `evaluate` sees them at the statement, by the local tasks at the end of the file, at `finalize`
	pub env1: Env,
	pub env2: Env,
	pub env3: Env,
}

/// Reads the shape `.addr A; {.const n, v; | .global g;}* INSTR …; {.const n, v;}*` back from the text with
/// the real parser. `None` if the text is not of that shape (the generators only produce that shape).
pub fn analyse(text: &str) -> Option<Program>
{
	let mut addr = None;
	let mut instr: Option<(String, Vec<Argument<'static>>, u32, u32)> = None;
	let mut before: Vec<(String, Option<i64>)> = Vec::new();
	let mut after: Vec<(String, i64)> = Vec::new();
	let mut globals: Vec<String> = Vec::new();
	for el in Parser::new(text.as_bytes())
	{
		let el = el.ok()?;
		match el.value
		{
			ElementValue::Directive{name, args} =>
			{
				match (name.as_ref(), args.as_slice())
				{
					("addr", [Argument::Constant(Number::Integer(v))]) => addr = Some(u32::try_from(*v).ok()?),
					("const", [Argument::Identifier(n), v]) =>
					{
						let v = match v
						{
							Argument::Constant(Number::Integer(v)) => *v,
							Argument::Negate(x) => match x.as_ref() {Argument::Constant(Number::Integer(v)) => v.checked_neg()?, _ => return None},
							_ => return None,
						};
						if instr.is_none() {before.push((n.as_ref().to_owned(), Some(v)));}
						else {after.push((n.as_ref().to_owned(), v));}
					},
					("global", [Argument::Identifier(n)]) =>
					{
						if instr.is_some() {return None;}
						globals.push(n.as_ref().to_owned());
						before.push((n.as_ref().to_owned(), None));
					},
					_ => return None,
				}
			},
			ElementValue::Instruction{name, args} =>
			{
				if instr.is_some() {return None;}
				instr = Some((name.as_ref().to_owned(), Argument::vec_into_owned(args), el.line, el.col));
			},
			ElementValue::Label(..) => return None,
		}
	}
	let (name, args, line, col) = instr?;
	let mut env2: Env = Vec::new();
	for (n, v) in &before {if v.is_some() {env2.push((n.clone(), *v));}}
	for (n, v) in &after {env2.push((n.clone(), Some(*v)));}
	for g in &globals {if !env2.iter().any(|(n, _)| n == g) {env2.push((g.clone(), None));}}
	let env3: Env = globals.iter().map(|g| (g.clone(), env2.iter().find(|(n, _)| n == g).and_then(|(_, v)| *v))).collect();
	Some(Program{addr: addr?, name, args, line, col, env1: before, env2, env3})
}

#[derive(Clone, Debug, PartialEq, Eq)]
pub struct Outcome
{
	/// diagnostics at the instruction's position, rendered as `Display` of the error and of each `source()`
	pub errs: Vec<String>,
	/// diagnostics elsewhere (directives)
	pub other: Vec<String>,
	/// the output map
	pub out: Vec<(u32, Vec<u8>)>,
	pub panic: Option<String>,
}

impl Outcome
{
	pub fn canon(&self) -> String
	{
		if let Some(p) = &self.panic {return format!("PANIC: {p}");}
		let mut s = String::new();
		for e in &self.errs {let _ = write!(s, "E[{e}] ");}
		for (a, b) in &self.out {let _ = write!(s, "@{a:08x}:{} ", hex(b));}
		if s.is_empty() {s.push_str("nothing");}
		s.trim_end().to_owned()
	}
}

/// canonical text of a diagnostic, rendered from the STRUCTURE of the error value (errkind.rs), never from its `Display`
fn err_text(e: &(dyn Error + 'static)) -> String {crate::errkind::front_text(e)}

/// exactly the sequence of `bin/assembler.rs`: assemble, close_segment, finalize, then read output and errors
pub fn real_run(text: &str, line: u32, col: u32, dirs: &DirectiveList) -> Outcome
{
	let r = guarded(||
	{
		let mut ctx = Context::new(&Arm6M, dirs);
		drop(ctx.assemble(text.as_bytes(), PathBuf::from("t.asm")));
		let mut extra = Vec::new();
		if let Err(e) = ctx.close_segment() {extra.push(format!("close_segment: {}", err_text(&e)));}
		let _ = ctx.finalize();
		let mut errs = Vec::new();
		let mut other = extra;
		for e in ctx.get_errors()
		{
			let t = err_text(&e.value);
			if e.line == line && e.col == col {errs.push(t);} else {other.push(format!("{t} ({}:{})", e.line, e.col));}
		}
		let out: Vec<(u32, Vec<u8>)> = ctx.output().iter().map(|(r, d)| (r.get_first(), d.to_vec())).collect();
		(errs, other, out)
	});
	match r
	{
		Ok((errs, other, out)) => Outcome{errs, other, out, panic: None},
		Err(p) => Outcome{errs: Vec::new(), other: Vec::new(), out: Vec::new(), panic: Some(p)},
	}
}

// ---------------------------------------------------------------------------------------------------
// prediction: model `assemble` (with the real `evaluate` as its `eval`) + real `encode` + the caller's protocol

pub const ENC_FAIL: &str = "instruction assembly failed <- could not encode instruction <- ";

fn write_fail(need: usize, cap: u64) -> String
{
	format!("instruction assembly failed <- could not write instruction to segment <- segment overflow (need {need}, capacity {cap})")
}

/// the parsed reply of `front build` / `front asm`
pub struct AsmReply
{
	pub res: String,
	pub instr: String,
	pub done: String,
	pub args: Vec<Argument<'static>>,
}

pub fn parse_reply(r: &str) -> Option<AsmReply>
{
	let parts: Vec<&str> = r.split(" | ").collect();
	if parts.len() != 4 {return None;}
	let mut t = parts[3].split(' ');
	let n: usize = t.next()?.parse().ok()?;
	let args = (0..n).map(|_| de_arg(&mut t)).collect::<Option<Vec<_>>>()?;
	Some(AsmReply{res: parts[0].to_owned(), instr: parts[1].to_owned(), done: parts[2].to_owned(), args})
}

pub fn pairs(args: &[Argument<'static>], env: &Env, dirs: &DirectiveList) -> String
{
	let ctx = env_ctx(env, dirs);
	let mut s = format!("{}", args.len());
	for a in args
	{
		s.push(' ');
		ser_arg(a, &mut s);
		s.push(' ');
		s.push_str(&eval_out(a, &ctx));
	}
	s
}

pub fn stage1_request(p: &Program, dirs: &DirectiveList) -> String
{
	format!("front build {} 1 {} {}", p.addr, hex(p.name.as_bytes()), pairs(&p.args, &p.env1, dirs))
}

pub fn later_request(p: &Program, prev: &AsmReply, env: &Env, dirs: &DirectiveList) -> String
{
	format!("front asm {} 0 {} {} {}", p.addr, prev.done, prev.instr, pairs(&prev.args, env, dirs))
}

/// State of the prediction of one program while the staged model requests are made.
pub struct Predict
{
	pub errs: Vec<String>,
	pub bytes: Option<Vec<u8>>,
	/// `Some(reply)` = a further `assemble` is due (stage 2: local tasks, stage 3: finalize)
	pub pending: Option<AsmReply>,
	pub stage: u8,
	pub bad: Option<String>,
}

impl Predict
{
	pub fn outcome(&self, addr: u32) -> Outcome
	{
		let out = match &self.bytes {Some(b) if !b.is_empty() => vec![(addr, b.clone())], _ => Vec::new()};
		Outcome{errs: self.errs.clone(), other: Vec::new(), out, panic: self.bad.as_ref().map(|b| format!("model: {b}"))}
	}

	fn finish_with(&mut self, instr: &str, addr: u32, first: bool)
	{
		match de_instr(instr)
		{
			None => self.bad = Some(format!("instruction {instr} does not fit the Rust types")),
			Some(i) => match encode(&i)
			{
				Ok(b) =>
				{
					let cap = (1u64 << 32) - addr as u64;
					if first && (b.len() as u64) > cap {self.errs.push(write_fail(b.len(), cap));}
					else {self.bytes = Some(b);}
				},
				Err(e) => self.errs.push(format!("{ENC_FAIL}{e}")),
			},
		}
	}

	/// after `front build`
	pub fn stage1(reply: &str, addr: u32) -> Predict
	{
		let mut p = Predict{errs: Vec::new(), bytes: None, pending: None, stage: 1, bad: None};
		if let Some(t) = reply.strip_prefix("notfound ")
		{
			p.errs.push(t.to_owned());
			return p;
		}
		let Some(r) = parse_reply(reply) else {p.bad = Some(format!("unparsable reply {reply}")); return p;};
		if r.res == "completed" {p.finish_with(&r.instr, addr, true); return p;}
		if r.res == "panic" {p.bad = Some("panic".to_owned()); return p;}
		if let Some(t) = r.res.strip_prefix("error ") {p.errs.push(t.to_owned());}
		// `_ => {instr.write_instr(ctx, true)?; instr.into_owned().schedule(ctx, false)}`: placeholder sized by the partial instruction
		match de_instr(&r.instr).map(|i| encode(&i))
		{
			None => p.bad = Some(format!("instruction {} does not fit the Rust types", r.instr)),
			Some(Err(e)) => p.errs.push(format!("{ENC_FAIL}{e}")),
			Some(Ok(b)) =>
			{
				let cap = (1u64 << 32) - addr as u64;
				if (b.len() as u64) > cap {p.errs.push(write_fail(b.len(), cap));}
				else
				{
					p.bytes = Some(vec![0xBE; b.len()]);
					p.pending = Some(r);
					p.stage = 2;
				}
			},
		}
		p
	}

	/// after a `front asm` of stage 2 or 3
	pub fn later(&mut self, reply: &str, addr: u32)
	{
		self.pending = None;
		let Some(r) = parse_reply(reply) else {self.bad = Some(format!("unparsable reply {reply}")); return;};
		if r.res == "completed"
		{
			let len = self.bytes.as_ref().map(|b| b.len());
			let before = self.errs.len();
			self.finish_with(&r.instr, addr, false);
			if self.errs.len() == before && self.bytes.as_ref().map(|b| b.len()) != len
			{
				self.bad = Some("final encoding and placeholder differ in length".to_owned());
			}
		}
		else if r.res == "panic" {self.bad = Some("panic".to_owned());}
		else if let Some(t) = r.res.strip_prefix("error ") {self.errs.push(t.to_owned());}
		else if let Some(c) = r.res.strip_prefix("deferred ")
		{
			if self.stage == 2
			{
				self.pending = Some(r);
				self.stage = 3;
			}
			else
			{
				let name = String::from_utf8_lossy(&unhex(c).unwrap_or_default()).into_owned();
				self.errs.push(format!("instruction assembly failed <- no such global constant {name:?}"));
			}
		}
		else {self.bad = Some(format!("unexpected result {}", r.res));}
	}
}

/// run the staged prediction for a batch of programs (three `ask_many` rounds at most)
pub fn predict_all(cx: &mut Cx, progs: &[Program], dirs: &DirectiveList) -> Vec<Predict>
{
	let reqs: Vec<String> = progs.iter().map(|p| stage1_request(p, dirs)).collect();
	let replies = cx.model.ask_many(&reqs);
	let mut preds: Vec<Predict> = progs.iter().zip(replies.iter()).map(|(p, r)| Predict::stage1(r, p.addr)).collect();
	for stage in [2u8, 3u8]
	{
		let idx: Vec<usize> = (0..preds.len()).filter(|&i| preds[i].pending.is_some() && preds[i].stage == stage).collect();
		if idx.is_empty() {break;}
		let reqs: Vec<String> = idx.iter().map(|&i|
		{
			let p = &progs[i];
			later_request(p, preds[i].pending.as_ref().unwrap(), if stage == 2 {&p.env2} else {&p.env3}, dirs)
		}).collect();
		let replies = cx.model.ask_many(&reqs);
		for (&i, r) in idx.iter().zip(replies.iter()) {preds[i].later(r, progs[i].addr);}
	}
	preds
}
