//! Correspondence harness: runs the real trion code and the compiled Lean model on the same inputs,
//! evaluates each property's oracle on the implementation, and writes a JSON report for `./check`.
//!
//! usage: harness run <ID> <quick|thorough> <seed> <report.json> [workdir]
//!        harness replay <ID> <input> <report.json> [workdir]
mod common;
mod errkind;
mod crc;
mod diagpos;
mod codec;
mod front;
mod asm;
mod simp;
mod parse;
mod lex;
mod map;
mod uf2;
mod seg;
mod scope;
mod trias;
mod tridas;

use common::*;

fn dispatch(id: &str, cx: &mut Cx)
{
	match id
	{
		"C01" | "C02" | "C03" => codec::run(id, cx),
		"C04" | "C19" => front::run(id, cx),
		"C05" | "C06" => asm::run(id, cx),
		"C13" => seg::run(id, cx),
		"C14" => scope::run(id, cx),
		"C07" | "C08" => simp::run(id, cx),
		"C09" => parse::run(id, cx),
		"C10" | "C11" => lex::run(id, cx),
		"C12" =>
		{
			// tokens and elements (lexer/parser), then diagnostics of the whole pipeline
			if !cx.replay.as_deref().is_some_and(|r| r.starts_with("diag ")) {lex::run(id, cx);}
			diagpos::run(cx);
		},
		"C15" => map::run(id, cx),
		"C16" => uf2::run(id, cx),
		"C17" => crc::run(id, cx),
		"C18" => trias::run(id, cx),
		"C20" => tridas::run(id, cx),
		_ => panic!("unknown property {id}"),
	}
}

fn main()
{
	let args: Vec<String> = std::env::args().collect();
	if args.len() < 5
	{
		eprintln!("usage: harness run <ID> <tier> <seed> <report.json> [workdir] | harness replay <ID> <input> <report.json> [workdir]");
		std::process::exit(2);
	}
	let mode = args[1].as_str();
	let id = args[2].clone();
	let (tier, seed, replay) = match mode
	{
		"run" => (args[3].clone(), args[4].parse::<u64>().expect("seed"), None),
		"replay" => ("quick".to_owned(), 0, Some(args[3].clone())),
		_ => panic!("bad mode {mode}"),
	};
	let report_path = if mode == "run" {args[5].clone()} else {args[4].clone()};
	let work = std::path::PathBuf::from(if mode == "run" {args.get(6)} else {args.get(5)}.cloned().unwrap_or_else(|| format!("{}/work/h{}", std::env::var("VERIF_ROOT").unwrap_or_else(|_| "/verif".to_owned()), std::process::id())));
	std::fs::create_dir_all(&work).unwrap();
	silence_panics();
	let mut cx = Cx
	{
		tier: tier.clone(), seed, rng: Rng::new(seed), model: Model::spawn(),
		report: Report::new(&id, &tier, seed), replay, work,
	};
	// sanity: the driver answers
	assert_eq!(cx.model.ask("ping"), "pong", "Lean model driver does not answer");
	dispatch(&id, &mut cx);
	cx.report.model_requests = cx.model.requests;
	cx.model.flush_samples();
	std::fs::write(&report_path, cx.report.to_json()).unwrap();
	let bad = cx.report.disagreements_total + cx.report.oracle_failures_total;
	eprintln!("harness {id} {tier}: {} evaluations, {} disagreements, {} oracle failures, {:.1}s",
		cx.report.evaluations, cx.report.disagreements_total, cx.report.oracle_failures_total, cx.report.start.elapsed().as_secs_f64());
	std::process::exit(if bad == 0 {0} else {1});
}
