//! C04 — an instruction statement assembles to the encoding of what was written.
//!
//! The generator writes statements from a SEMANTIC description (mnemonic + operand values) that it keeps;
//! the oracle computes the expected `Instruction` from that description alone (nothing of the model and
//! nothing of `src/arm6m/mod.rs`) and compares with what the real pipeline put at the statement address.
use std::fmt::Write as _;

use trion::arm6m::asm::{ImmReg, Instruction};
use trion::arm6m::cond::Condition;
use trion::arm6m::regset::RegisterSet;
use trion::arm6m::sysreg::SystemReg;
use trion::asm::directive::DirectiveList;

use super::*;

// ---------------------------------------------------------------------------------------------------
// semantic description

#[derive(Clone, Debug)]
enum MemOff {None, Imm(i64), Reg(u8)}

#[derive(Clone, Debug)]
enum V
{
	R(u8),
	S(usize),
	I(i64),
	Set(u16),
	Mem(u8, MemOff),
	T(u32),
	Opt(&'static str),
}

#[derive(Clone, Copy, Debug, PartialEq)]
enum K {R, S, IR, I, Set, Mem, MemOrT, T, Opt}

const SYS: [(&str, SystemReg); 11] = [("APSR", SystemReg::APSR), ("IAPSR", SystemReg::IAPSR), ("EAPSR", SystemReg::EAPSR),
	("XPSR", SystemReg::XPSR), ("IPSR", SystemReg::IPSR), ("EPSR", SystemReg::EPSR), ("IEPSR", SystemReg::IEPSR),
	("MSP", SystemReg::MSP), ("PSP", SystemReg::PSP), ("PRIMASK", SystemReg::PRIMASK), ("CONTROL", SystemReg::CONTROL)];

/// every mnemonic of the documented syntax with its operand kinds
const MNEMONICS: &[(&str, &[K])] = &[
	("ADCS", &[K::R, K::R]), ("ADD", &[K::R, K::R, K::IR]), ("ADDS", &[K::R, K::R, K::IR]), ("ADR", &[K::R, K::T]),
	("ANDS", &[K::R, K::R]), ("ASRS", &[K::R, K::R, K::IR]),
	("B", &[K::T]), ("BCC", &[K::T]), ("BCS", &[K::T]), ("BEQ", &[K::T]), ("BGE", &[K::T]), ("BGT", &[K::T]), ("BHI", &[K::T]),
	("BHS", &[K::T]), ("BLE", &[K::T]), ("BLO", &[K::T]), ("BLS", &[K::T]), ("BLT", &[K::T]), ("BMI", &[K::T]), ("BNE", &[K::T]),
	("BPL", &[K::T]), ("BVC", &[K::T]), ("BVS", &[K::T]),
	("BIC", &[K::R, K::R]), ("BICS", &[K::R, K::R]), ("BKPT", &[K::I]), ("BL", &[K::T]), ("BLX", &[K::R]), ("BX", &[K::R]),
	("CMN", &[K::R, K::R]), ("CMP", &[K::R, K::IR]), ("CPSID", &[K::Opt]), ("CPSIE", &[K::Opt]),
	("DMB", &[K::Opt]), ("DSB", &[K::Opt]), ("ISB", &[K::Opt]), ("EORS", &[K::R, K::R]),
	("LDM", &[K::R, K::Set]), ("LDR", &[K::R, K::MemOrT]), ("LDRB", &[K::R, K::Mem]), ("LDRH", &[K::R, K::Mem]),
	("LDRSB", &[K::R, K::Mem]), ("LDRSH", &[K::R, K::Mem]), ("LSLS", &[K::R, K::R, K::IR]), ("LSRS", &[K::R, K::R, K::IR]),
	("MOV", &[K::R, K::IR]), ("MOVS", &[K::R, K::IR]), ("MRS", &[K::R, K::S]), ("MSR", &[K::S, K::R]),
	("MULS", &[K::R, K::R]), ("MVNS", &[K::R, K::R]), ("NOP", &[]), ("ORRS", &[K::R, K::R]), ("POP", &[K::Set]), ("PUSH", &[K::Set]),
	("REV", &[K::R, K::R]), ("REV16", &[K::R, K::R]), ("REVSH", &[K::R, K::R]), ("RORS", &[K::R, K::R]),
	("RSBS", &[K::R, K::R, K::I]), ("SBCS", &[K::R, K::R]), ("SEV", &[]), ("STM", &[K::R, K::Set]),
	("STR", &[K::R, K::Mem]), ("STRB", &[K::R, K::Mem]), ("STRH", &[K::R, K::Mem]),
	("SUB", &[K::R, K::R, K::IR]), ("SUBS", &[K::R, K::R, K::IR]), ("SVC", &[K::I]),
	("SXTB", &[K::R, K::R]), ("SXTH", &[K::R, K::R]), ("TST", &[K::R, K::R]), ("UDF.N", &[K::I]), ("UDF.W", &[K::I]),
	("UXTB", &[K::R, K::R]), ("UXTH", &[K::R, K::R]), ("WFE", &[]), ("WFI", &[]), ("YIELD", &[]),
];

fn cond_of(mn: &str) -> Option<Condition>
{
	Some(match mn
	{
		"B" => Condition::Always, "BEQ" => Condition::Equal, "BNE" => Condition::NonEqual,
		"BCS" | "BHS" => Condition::CarrySet, "BCC" | "BLO" => Condition::CarryClear,
		"BMI" => Condition::Minus, "BPL" => Condition::Plus, "BVS" => Condition::Overflow, "BVC" => Condition::NoOverflow,
		"BHI" => Condition::Higher, "BLS" => Condition::LowerEqual, "BGE" => Condition::GreaterEqual, "BLT" => Condition::Less,
		"BGT" => Condition::Greater, "BLE" => Condition::LessEqual,
		_ => return None,
	})
}

/// the range of the PC-relative offset of a mnemonic: (min, max, alignment, word-aligned base)
fn pc_range(mn: &str) -> Option<(i64, i64, i64, bool)>
{
	match mn
	{
		"ADR" | "LDR" => Some((0, 1020, 4, true)),
		"B" => Some((-2048, 2046, 2, false)),
		"BL" => Some((-(1 << 24), (1 << 24) - 1, 2, false)),
		m if cond_of(m).is_some() => Some((-256, 254, 2, false)),
		_ => None,
	}
}

/// the base a PC-relative operand is measured from: the statement's address plus 4 (unbounded arithmetic: at
/// 0xFFFFFFFC the base is 2^32), word-aligned first for ADR and literal LDR
fn pc_base(addr: u32, aligned: bool) -> i64
{
	(if aligned {addr & !3} else {addr}) as i64 + 4
}

/// THE ORACLE: the instruction that mnemonic + operand values mean at `addr`; `None` = the statement is not
/// valid (operand out of range for the field types, misaligned or out-of-range target, wrong option, …)
fn meaning(mn: &str, v: &[V], addr: u32) -> Option<Instruction>
{
	let r = |i: usize| -> Option<trion::arm6m::reg::Register> {match v.get(i)? {V::R(n) => Some(reg(*n)), _ => None}};
	let irv = |i: usize| -> Option<ImmReg>
	{
		match v.get(i)?
		{
			V::R(n) => Some(ImmReg::Register(reg(*n))),
			V::I(x) => Some(ImmReg::Immediate(i32::try_from(*x).ok()?)),
			_ => None,
		}
	};
	let imm = |i: usize| -> Option<i64> {match v.get(i)? {V::I(x) => Some(*x), _ => None}};
	let set = |i: usize| -> Option<RegisterSet> {match v.get(i)? {V::Set(b) => Some(RegisterSet::of(*b)), _ => None}};
	let sys = |i: usize| -> Option<SystemReg> {match v.get(i)? {V::S(n) => Some(SYS[*n].1), _ => None}};
	let mem = |i: usize| -> Option<(trion::arm6m::reg::Register, ImmReg)>
	{
		match v.get(i)?
		{
			V::Mem(b, MemOff::None) => Some((reg(*b), ImmReg::Immediate(0))),
			V::Mem(b, MemOff::Imm(k)) => Some((reg(*b), ImmReg::Immediate(i32::try_from(*k).ok()?))),
			V::Mem(b, MemOff::Reg(o)) => Some((reg(*b), ImmReg::Register(reg(*o)))),
			_ => None,
		}
	};
	let pcrel = |i: usize| -> Option<i64>
	{
		let (min, max, al, aligned) = pc_range(mn)?;
		match v.get(i)?
		{
			V::T(t) =>
			{
				let off = *t as i64 - pc_base(addr, aligned);
				if off < min || off > max || off.rem_euclid(al) != 0 {None} else {Some(off)}
			},
			_ => None,
		}
	};
	let opt = |i: usize, ok: &[&str]| -> Option<()>
	{
		match v.get(i)? {V::Opt(s) if ok.iter().any(|o| o.eq_ignore_ascii_case(s)) => Some(()), _ => None}
	};
	Some(match mn
	{
		"ADCS" => Instruction::Adc{dst: r(0)?, rhs: r(1)?},
		"ADD" | "ADDS" => Instruction::Add{flags: mn == "ADDS", dst: r(0)?, lhs: r(1)?, rhs: irv(2)?},
		"ADR" => Instruction::Adr{dst: r(0)?, off: pcrel(1)? as u16},
		"ANDS" => Instruction::And{dst: r(0)?, rhs: r(1)?},
		"ASRS" => Instruction::Asr{dst: r(0)?, value: r(1)?, shift: irv(2)?},
		"BIC" | "BICS" => Instruction::Bic{dst: r(0)?, rhs: r(1)?},
		"BKPT" => Instruction::Bkpt{info: u8::try_from(imm(0)?).ok()?},
		"BL" => Instruction::Bl{off: pcrel(0)? as i32},
		"BLX" => Instruction::Blx{off: r(0)?},
		"BX" => Instruction::Bx{off: r(0)?},
		"CMN" => Instruction::Cmn{lhs: r(0)?, rhs: r(1)?},
		"CMP" => Instruction::Cmp{lhs: r(0)?, rhs: irv(1)?},
		"CPSID" => {opt(0, &["i"])?; Instruction::Cps{enable: false}},
		"CPSIE" => {opt(0, &["i"])?; Instruction::Cps{enable: true}},
		"DMB" => {opt(0, &["SY", "SV"])?; Instruction::Dmb},
		"DSB" => {opt(0, &["SY", "SV"])?; Instruction::Dsb},
		"ISB" => {opt(0, &["SY", "SV"])?; Instruction::Isb},
		"EORS" => Instruction::Eor{dst: r(0)?, rhs: r(1)?},
		"LDM" => Instruction::Ldm{addr: r(0)?, registers: set(1)?},
		"LDR" => match v.get(1)?
		{
			V::T(..) => Instruction::Ldr{dst: r(0)?, addr: reg(15), off: ImmReg::Immediate(pcrel(1)? as i32)},
			_ => {let (a, o) = mem(1)?; Instruction::Ldr{dst: r(0)?, addr: a, off: o}},
		},
		"LDRB" => {let (a, o) = mem(1)?; Instruction::Ldrb{dst: r(0)?, addr: a, off: o}},
		"LDRH" => {let (a, o) = mem(1)?; Instruction::Ldrh{dst: r(0)?, addr: a, off: o}},
		"LDRSB" => match mem(1)? {(a, ImmReg::Register(o)) if matches!(v[1], V::Mem(_, MemOff::Reg(_))) => Instruction::Ldrsb{dst: r(0)?, addr: a, off: o}, _ => return None},
		"LDRSH" => match mem(1)? {(a, ImmReg::Register(o)) if matches!(v[1], V::Mem(_, MemOff::Reg(_))) => Instruction::Ldrsh{dst: r(0)?, addr: a, off: o}, _ => return None},
		"LSLS" => Instruction::Lsl{dst: r(0)?, value: r(1)?, shift: irv(2)?},
		"LSRS" => Instruction::Lsr{dst: r(0)?, value: r(1)?, shift: irv(2)?},
		"MOV" | "MOVS" => Instruction::Mov{flags: mn == "MOVS", dst: r(0)?, src: irv(1)?},
		"MRS" => Instruction::Mrs{dst: r(0)?, src: sys(1)?},
		"MSR" => Instruction::Msr{dst: sys(0)?, src: r(1)?},
		"MULS" => Instruction::Mul{dst: r(0)?, rhs: r(1)?},
		"MVNS" => Instruction::Mvn{dst: r(0)?, value: r(1)?},
		"NOP" => Instruction::Nop,
		"ORRS" => Instruction::Orr{dst: r(0)?, rhs: r(1)?},
		"POP" => Instruction::Pop{registers: set(0)?},
		"PUSH" => Instruction::Push{registers: set(0)?},
		"REV" => Instruction::Rev{dst: r(0)?, value: r(1)?},
		"REV16" => Instruction::Rev16{dst: r(0)?, value: r(1)?},
		"REVSH" => Instruction::Revsh{dst: r(0)?, value: r(1)?},
		"RORS" => Instruction::Ror{dst: r(0)?, rhs: r(1)?},
		"RSBS" => {if imm(2)? != 0 {return None;} Instruction::Rsb{dst: r(0)?, lhs: r(1)?}},
		"SBCS" => Instruction::Sbc{dst: r(0)?, rhs: r(1)?},
		"SEV" => Instruction::Sev,
		"STM" => Instruction::Stm{addr: r(0)?, registers: set(1)?},
		"STR" => {let (a, o) = mem(1)?; Instruction::Str{src: r(0)?, addr: a, off: o}},
		"STRB" => {let (a, o) = mem(1)?; Instruction::Strb{src: r(0)?, addr: a, off: o}},
		"STRH" => {let (a, o) = mem(1)?; Instruction::Strh{src: r(0)?, addr: a, off: o}},
		"SUB" | "SUBS" => Instruction::Sub{flags: mn == "SUBS", dst: r(0)?, lhs: r(1)?, rhs: irv(2)?},
		"SVC" => Instruction::Svc{info: u8::try_from(imm(0)?).ok()?},
		"SXTB" => Instruction::Sxtb{dst: r(0)?, value: r(1)?},
		"SXTH" => Instruction::Sxth{dst: r(0)?, value: r(1)?},
		"TST" => Instruction::Tst{lhs: r(0)?, rhs: r(1)?},
		"UDF.N" => Instruction::Udf{info: u8::try_from(imm(0)?).ok()?},
		"UDF.W" => Instruction::Udfw{info: u16::try_from(imm(0)?).ok()?},
		"UXTB" => Instruction::Uxtb{dst: r(0)?, value: r(1)?},
		"UXTH" => Instruction::Uxth{dst: r(0)?, value: r(1)?},
		"WFE" => Instruction::Wfe,
		"WFI" => Instruction::Wfi,
		"YIELD" => Instruction::Yield,
		m =>
		{
			let c = cond_of(m)?;
			Instruction::B{cond: c, off: pcrel(0)? as i32}
		},
	})
}

// ---------------------------------------------------------------------------------------------------
// concrete syntax

#[derive(Default)]
struct Defs
{
	before: String,
	after: String,
	n: u32,
}

fn mixed_case(s: &str, rng: &mut Rng) -> String
{
	match rng.below(4)
	{
		0 => s.to_owned(),
		1 => s.to_ascii_lowercase(),
		_ => s.chars().map(|c| if rng.chance(1, 2) {c.to_ascii_lowercase()} else {c.to_ascii_uppercase()}).collect(),
	}
}

fn reg_text(n: u8, rng: &mut Rng) -> String
{
	let alias = match n {13 => Some("SP"), 14 => Some("LR"), 15 => Some("PC"), _ => None};
	let s = match alias {Some(a) if rng.chance(1, 2) => a.to_owned(), _ => format!("R{n}")};
	mixed_case(&s, rng)
}

fn lit(v: i64, rng: &mut Rng) -> String
{
	if v < 0
	{
		if v == i64::MIN {return "(0 - 9223372036854775807 - 1)".to_owned();}
		return if rng.chance(1, 2) {format!("-{}", -v)} else {format!("(0 - {})", -v)};
	}
	match rng.below(3)
	{
		0 => format!("0x{v:X}"),
		_ => format!("{v}"),
	}
}

trait FormFilter {fn filter_ok(self, v: i64) -> Self; fn filter_nonneg(self, v: i64) -> Self;}
impl FormFilter for (Option<i64>, String)
{
	/// `f & 0xFFFFFFFF` only denotes `v` for 0 <= v < 2^32
	fn filter_ok(self, v: i64) -> Self {if (0..1i64 << 32).contains(&v) {self} else {(None, self.1)}}
	/// `f >> 2` of a non-negative value
	fn filter_nonneg(self, v: i64) -> Self {if v >= 0 {self} else {(None, self.1)}}
}

/// a constant expression whose value is `v`; may add `.const` / `.global` definitions around the statement
fn expr(v: i64, rng: &mut Rng, d: &mut Defs, allow_defer: bool) -> (String, &'static str)
{
	if v == i64::MIN {return (lit(v, rng), "literal");}   // not writable as one literal in a `.const`
	let pick = rng.below(if allow_defer {17} else {9});
	match pick
	{
		0 | 1 => (lit(v, rng), "literal"),
		2 => (format!("({})", lit(v, rng)), "parenthesised"),
		3 =>
		{
			let k = rng.range(-5, 9);
			match v.checked_sub(k) {Some(a) => (format!("{} + {}", lit(a, rng), lit(k, rng)), "sum"), None => (lit(v, rng), "literal")}
		},
		4 =>
		{
			if v % 2 == 0 {(format!("{}*2", lit(v / 2, rng)), "product")}
			else {match (v / 2).checked_mul(2) {Some(_) => (format!("({}*2 + {})", lit(v / 2, rng), v - (v / 2) * 2), "product"), None => (lit(v, rng), "literal")}}
		},
		5 => if v >= 0 && v.checked_mul(2).is_some() && rng.chance(1, 2) {(format!("({} << 1) / 2", lit(v, rng)), "shift")} else
		{
			// spellings that rely on the documented precedence (no parentheses): * / % over + - over << >> over & over ^ over |
			let (a, b, c) = (rng.range(0, 40), rng.range(1, 9), rng.range(1, 7));
			let forms: [(i64, String); 8] = [
				(a + b % c, format!("{a} + {b} % {c}")),
				(a - b * c, format!("{a} - {b} * {c}")),
				(a * b + c, format!("{a} * {b} + {c}")),
				(a + b / c, format!("{a} + {b} / {c}")),
				(a << (b % 4 + 1), format!("{a} << {} + 1", b % 4)),
				(a | (b ^ (c & 3)), format!("{a} | {b} ^ {c} & 3")),
				((a + b) >> 1, format!("{a} + {b} >> 1")),
				(-a + b, format!("-{a} + {b}")),
			];
			let (fv, text) = &forms[rng.below(forms.len() as u64) as usize];
			match v.checked_sub(*fv)
			{
				Some(d) if d >= 0 => (format!("({text}) + {d}"), "precedence"),
				Some(d) => (format!("({text}) - {}", -(d as i128)), "precedence"),
				None => (lit(v, rng), "literal"),
			}
		},
		6 | 7 =>
		{
			d.n += 1;
			let name = format!("c{}", d.n);
			let _ = write!(d.before, ".const {name}, {v}; ");
			if rng.chance(1, 2) {(name, "constant")} else {(format!("({name})"), "constant")}
		},
		8 =>
		{
			d.n += 1;
			let name = format!("k{}", d.n);
			let k = rng.range(1, 7);
			match v.checked_sub(k)
			{
				Some(a) => {let _ = write!(d.before, ".const {name}, {a}; "); (format!("{name} + {k}"), "constant+k")},
				None => (lit(v, rng), "literal"),
			}
		},
		9 | 10 =>
		{
			d.n += 1;
			let name = format!("f{}", d.n);
			// the forward constant under every operator (all node kinds must survive the deferral of the statement)
			let k = rng.range(1, 60);
			let (fv, text): (Option<i64>, String) = if v.unsigned_abs() >= 1 << 40 {(Some(v), name.clone())} else {match rng.below(16)
			{
				0 => (Some(v ^ k), format!("{name} ^ {k}")),
				1 => (Some(v ^ k), format!("{k} ^ {name}")),
				2 => (Some(v & !(v & 0x15)), format!("{name} | {}", v & 0x15)),
				3 => (Some(v | (0x1000 << 20)), format!("{name} & 0xFFFFFFFF")).filter_ok(v),
				4 => (v.checked_add(k), format!("{name} - {k}")),
				5 => (k.checked_sub(v), format!("{k} - {name}")),
				6 => (Some(v), format!("{name} * 1")),
				7 => (Some(v), format!("{name} / 1")),
				8 => (Some(v), format!("{name} % 0x20000000000")),
				9 => (Some(v), format!("{name} << 0")),
				10 => (Some(v), format!("{name} >> 0")),
				11 => (v.checked_neg(), format!("-{name}")),
				12 => (Some(!v), format!("!{name}")),
				13 => (v.checked_mul(4), format!("{name} >> 2")).filter_nonneg(v),
				14 => (Some(v), format!("{name} + 0")),
				_ => (Some(v), name.clone()),
			}};
			match fv
			{
				Some(fv) => {let _ = write!(d.after, ".const {name}, {fv}; "); (text, "forward")},
				None => {let _ = write!(d.after, ".const {name}, {v}; "); (name, "forward")},
			}
		},
		15 | 16 if v.unsigned_abs() < 1 << 40 =>
		{
			// nested remainders with negative inner / outer divisors over a name declared `.global` and defined below
			d.n += 1;
			let name = format!("gm{}", d.n);
			let fv = rng.range(-500, 500);
			let ys = [-8i64, 8, -3, 3, -16, 5, -5, 4, -4, 7];
			let (y, z) = (*rng.pick(&ys), *rng.pick(&ys));
			let (inner, iv) = match rng.below(4)
			{
				0 => (format!("(({name} % {y}) % {z})"), (fv % y) % z),
				1 => (format!("((({name} % {y}) % {z}) % {y})"), ((fv % y) % z) % y),
				2 => (format!("(({name} % {y}) % {z} % 2)"), ((fv % y) % z) % 2),
				_ => (format!("((({name} + 1) % {y}) % {z})"), ((fv + 1) % y) % z),
			};
			let k = v - iv;
			let text = if k >= 0 {format!("{inner} + {k}")} else {format!("{inner} - {}", -(k as i128))};
			let _ = write!(d.before, ".global {name}; ");
			let _ = write!(d.after, ".const {name}, {fv}; ");
			(text, "nested remainders")
		},
		12 | 13 | 14 if v.unsigned_abs() < 1 << 40 =>
		{
			// two (or three) names declared `.global` and defined BELOW the statement, and two or three literals, nested through + and -
			// on both sides: the literals are merged across the unknown names while the statement waits
			d.n += 1;
			let (na, nb, nc) = (format!("ga{}", d.n), format!("gb{}", d.n), format!("gc{}", d.n));
			let (a, b, c) = (rng.range(0, 4000), rng.range(0, 4000), rng.range(0, 4000));
			let (c1, c2) = (rng.range(1, 40), rng.range(1, 40));
			// (text with a hole for the outer literal, value without it)
			let forms: [(String, i64); 10] = [
				(format!("({na} - ({nb} + {c2}))"), a - (b + c2)),
				(format!("({na} - ({nb} - {c2}))"), a - (b - c2)),
				(format!("({na} - ({c2} + {nb}))"), a - (c2 + b)),
				(format!("({na} + ({nb} - ({nc} + {c2})))"), a + (b - (c + c2))),
				(format!("({na} - ({nb} - ({nc} - {c2})))"), a - (b - (c - c2))),
				(format!("(({na} - {c1}) - ({nb} + {c2}))"), (a - c1) - (b + c2)),
				(format!("({na} - ({nb} + {c2}) + {c1})"), a - (b + c2) + c1),
				(format!("({c1} - ({na} - ({nb} + {c2})))"), c1 - (a - (b + c2))),
				(format!("(({na} + {c1}) - (({nb} - {c2}) - {nc}))"), (a + c1) - ((b - c2) - c)),
				(format!("(-({na} - ({nb} + {c2})))"), -(a - (b + c2))),
			];
			let (inner, iv) = &forms[rng.below(forms.len() as u64) as usize];
			let k = v - iv;
			let text = match rng.below(4)
			{
				0 => format!("{k} + {inner}"),
				1 => if k >= 0 {format!("{inner} + {k}")} else {format!("{inner} - {}", -k)},
				2 => format!("{inner} - {}", -(k as i128)),
				_ => format!("{} + ({inner} - {})", k + 7, 7),
			};
			let text = text.replace("- -", "- (0 - ").replace("+ -", "+ (0 - ");
			// close the parentheses opened by the replacement of a negative literal
			let opened = text.matches("(0 - ").count();
			let text = if opened > 0
			{
				// re-render without the shortcut: negative literals as `(0 - n)`
				let lit = |x: i64| if x < 0 {format!("(0 - {})", -(x as i128))} else {format!("{x}")};
				match rng.below(3) {0 => format!("{} + {inner}", lit(k)), 1 => format!("{inner} + {}", lit(k)), _ => format!("{} + ({inner} - 7)", lit(k + 7))}
			}
			else {text};
			for n in [&na, &nb, &nc] {if inner.contains(n.as_str()) {let _ = write!(d.before, ".global {n}; ");}}
			for (n, x) in [(&na, a), (&nb, b), (&nc, c)] {if inner.contains(n.as_str()) {let _ = write!(d.after, ".const {n}, {x}; ");}}
			(text, "nested globals")
		},
		_ =>
		{
			d.n += 1;
			let name = format!("g{}", d.n);
			let _ = write!(d.before, ".global {name}; ");
			if rng.chance(5, 6) {let _ = write!(d.after, ".const {name}, {v}; "); (name, "global-forward")}
			else {(name, "global-undefined")}
		},
	}
}

fn operand_text(v: &V, rng: &mut Rng, d: &mut Defs, hist: &mut Vec<&'static str>) -> String
{
	match v
	{
		V::R(n) => reg_text(*n, rng),
		V::S(n) => mixed_case(SYS[*n].0, rng),
		V::I(x) => {let (s, h) = expr(*x, rng, d, true); hist.push(h); s},
		V::T(t) => {let (s, h) = expr(*t as i64, rng, d, true); hist.push(h); s},
		V::Set(bits) =>
		{
			let mut regs: Vec<u8> = (0..16).filter(|i| (bits >> i) & 1 != 0).collect();
			if rng.chance(1, 3) {regs.reverse();}
			if rng.chance(1, 6) && !regs.is_empty() {let x = regs[0]; regs.push(x);}   // a repeated register names the same set
			let items: Vec<String> = regs.iter().map(|r| reg_text(*r, rng)).collect();
			format!("{{{}}}", items.join(if rng.chance(1, 2) {", "} else {","}))
		},
		V::Mem(b, MemOff::None) => format!("[{}]", reg_text(*b, rng)),
		V::Mem(b, MemOff::Reg(o)) => format!("[{} + {}]", reg_text(*b, rng), reg_text(*o, rng)),
		V::Mem(b, MemOff::Imm(k)) =>
		{
			let (e, h) = expr(*k, rng, d, true);
			hist.push(h);
			// a sum inside the brackets must stay one operand of the outer `+`
			let e = if e.contains(' ') && !e.starts_with('(') {format!("({e})")} else {e};
			if rng.chance(1, 2) {hist.push("[base + off]"); format!("[{} + {e}]", reg_text(*b, rng))}
			else {hist.push("[off + base]"); format!("[{e} + {}]", reg_text(*b, rng))}
		},
		V::Opt(s) => mixed_case(s, rng),
	}
}

fn wrong_kind_text(k: K, rng: &mut Rng) -> String
{
	// texts of a kind the slot does not accept
	let number = ["5", "0", "(2*2)"];
	let reg = ["R1", "sp", "r7"];
	let string = ["\"R0\"", "\"5\""];
	let set = ["{R0}", "{}"];
	let mem = ["[R0]", "[R1 + 4]"];
	let func = ["f(1)"];
	let pools: Vec<&[&str]> = match k
	{
		K::R | K::S => vec![&number, &string, &set, &mem, &func],
		K::IR => vec![&string, &set, &mem, &func],
		K::I | K::T => vec![&reg, &string, &set, &mem, &func],
		K::Set => vec![&reg, &number, &string, &mem],
		K::Mem => vec![&reg, &number, &string, &set],
		K::MemOrT => vec![&reg, &string, &set, &func],
		K::Opt => vec![&number, &string, &set, &mem],
	};
	let p = *rng.pick(&pools);
	(*rng.pick(p)).to_owned()
}

// ---------------------------------------------------------------------------------------------------
// generation of operand values

const ADDRS_LOW: [u32; 3] = [0, 0x1000_0000, 0x2000_0000];

fn pick_addr(rng: &mut Rng) -> u32
{
	match rng.below(10)
	{
		0..=7 => *rng.pick(&ADDRS_LOW) + *rng.pick(&[0u32, 2, 0, 2, 1, 3]) + if rng.chance(1, 4) {0x100 * rng.below(64) as u32} else {0},
		8 => 0xFFFF_FFF0 + rng.below(16) as u32,
		_ => *rng.pick(&[0xFFFF_FFFCu32, 0xFFFF_FFFE, 0xFFFF_FFFA, 0xFFFF_FFF8]),   // addr + 4 reaches / passes 2^32
	}
}

fn pick_reg(rng: &mut Rng) -> u8
{
	match rng.below(4) {0 => rng.below(16) as u8, 1 => 8 + rng.below(8) as u8, _ => rng.below(8) as u8}
}

const IMM_POINTS: [i64; 40] = [0, 1, 2, 3, 4, 5, 7, 8, 9, 31, 32, 33, 60, 62, 63, 64, 124, 127, 128, 252, 254, 255, 256, 257, 508, 511, 512,
	1020, 1021, 1024, 4095, 65535, 65536, -1, -2, -255, 2147483647, 2147483648, -2147483648, -2147483649];

fn pick_imm(rng: &mut Rng) -> i64
{
	match rng.below(10)
	{
		0..=5 => *rng.pick(&IMM_POINTS),
		6 => rng.range(0, 260),
		7 => rng.range(-4, 1100),
		8 => *rng.pick(&[4294967295i64, 4294967296, 4294967297, 4294967296 + 5, i64::MAX, i64::MIN, -4294967296, 1 << 40]),
		_ => rng.next() as i64 >> rng.below(60),
	}
}

fn pick_target(mn: &str, addr: u32, rng: &mut Rng) -> (u32, &'static str)
{
	let (min, max, al, aligned) = pc_range(mn).unwrap();
	let base = pc_base(addr, aligned);
	let d = rng.range(-3, 3) * if rng.chance(1, 2) {1} else {al};
	let (off, what) = match rng.below(12)
	{
		0 | 1 => (min + d, "at/around min"),
		2 | 3 => (max + d, "at/around max"),
		4 => (d, "around 0"),
		5 | 6 => (min + rng.below((max - min + 1) as u64) as i64, "inside"),
		7 => ((min + rng.below((max - min + 1) as u64) as i64) / al * al, "inside aligned"),
		8 => (max + 1 + rng.below(5000) as i64, "beyond max"),
		9 => (min - 1 - rng.below(5000) as i64, "beyond min"),
		10 => (rng.next() as i64 >> 31, "far"),
		_ => (*rng.pick(&[min, max, min - al, max + al, max + 1, min - 1, 0, al, -al]), "boundary"),
	};
	// the target is an address: take it modulo 2^32 (a target beyond either end names a different address)
	(((base + off) as i128).rem_euclid(1i128 << 32) as u32, what)
}

fn pick_value(k: K, mn: &str, addr: u32, rng: &mut Rng, hist: &mut Vec<&'static str>) -> V
{
	match k
	{
		K::R => V::R(pick_reg(rng)),
		K::S => V::S(rng.below(11) as usize),
		K::IR => if rng.chance(1, 2) {V::R(pick_reg(rng))} else {V::I(pick_imm(rng))},
		K::I => if mn == "RSBS" && rng.chance(2, 3) {V::I(0)} else {V::I(pick_imm(rng))},
		K::Set => V::Set(match rng.below(6) {0 => 0, 1 => 1 << rng.below(16), 2 => rng.next() as u16 & 0xFF, 3 => (rng.next() as u16 & 0xFF) | 0x4000, 4 => (rng.next() as u16 & 0xFF) | 0x8000, _ => rng.next() as u16}),
		K::Mem | K::MemOrT =>
		{
			if k == K::MemOrT && rng.chance(1, 2)
			{
				let (t, w) = pick_target(mn, addr, rng);
				hist.push(w);
				return V::T(t);
			}
			let base = match rng.below(5) {0 => 13, 1 => 15, 2 => rng.below(16) as u8, _ => rng.below(8) as u8};
			match rng.below(6)
			{
				0 => V::Mem(base, MemOff::None),
				1 | 2 => V::Mem(base, MemOff::Reg(pick_reg(rng))),
				_ => V::Mem(base, MemOff::Imm(pick_imm(rng))),
			}
		},
		K::T => {let (t, w) = pick_target(mn, addr, rng); hist.push(w); V::T(t)},
		K::Opt => V::Opt(match mn
		{
			"CPSID" | "CPSIE" => *rng.pick(&["i", "i", "i", "f", "a", "if"]),
			_ => *rng.pick(&["SY", "SY", "SY", "SV", "ISH", "ST", "S"]),
		}),
	}
}

// ---------------------------------------------------------------------------------------------------

/// one generated case: the replayable input is `<expectation>#<program text>`
struct Case
{
	text: String,
	expect: Option<Instruction>,
	hist: Vec<&'static str>,
	/// the program up to and including the statement / the definitions that follow it (text = head + " " + tail)
	head: String,
	tail: String,
	addr: u32,
}

fn gen_case(rng: &mut Rng) -> Case {gen_case_of(rng, None)}

fn gen_case_of(rng: &mut Rng, which: Option<usize>) -> Case
{
	let (mn, kinds) = match which {Some(i) => MNEMONICS[i], None => *rng.pick(MNEMONICS)};
	let addr = pick_addr(rng);
	let mut hist: Vec<&'static str> = Vec::new();
	let mut vals: Vec<V> = kinds.iter().map(|k| pick_value(*k, mn, addr, rng, &mut hist)).collect();
	let mut d = Defs::default();
	let mut texts: Vec<String> = vals.iter().map(|v| operand_text(v, rng, &mut d, &mut hist)).collect();
	let mut valid = true;
	match rng.below(12)
	{
		0 =>
		{
			// one operand too many
			let extra = match rng.below(3) {0 => "R0".to_owned(), 1 => "0".to_owned(), _ => texts.last().cloned().unwrap_or("1".to_owned())};
			texts.push(extra);
			valid = false;
			hist.push("shape: one too many");
		},
		1 if !texts.is_empty() =>
		{
			texts.pop();
			vals.pop();
			valid = false;
			hist.push("shape: one too few");
		},
		2 if !texts.is_empty() =>
		{
			let i = rng.below(texts.len() as u64) as usize;
			texts[i] = wrong_kind_text(kinds[i], rng);
			valid = false;
			hist.push("shape: wrong kind");
		},
		3 if !texts.is_empty() && rng.chance(1, 3) =>
		{
			// a register slot naming no register
			if let Some(i) = (0..kinds.len()).find(|&i| matches!(vals[i], V::R(_)) && kinds[i] == K::R)
			{
				texts[i] = (*rng.pick(&["R16", "R", "SPP", "X0", "R01", "r1x", "R0000", "STACK", "programcounter"])).to_owned();
				valid = false;
				hist.push("shape: no such register");
			}
			else {hist.push("shape: right");}
		},
		_ => hist.push("shape: right"),
	}
	// mnemonic spelling (BIC and BICS, BCS and BHS, BCC and BLO are written as picked from the table)
	let mut name = mixed_case(mn, rng);
	if rng.chance(1, 60)
	{
		name = (*rng.pick(&["MOVSS", "ADC", "BAL", "LDRD", "UDF", "NOPE", "AVERYLONGMNEMONIC1", "ABCDEFGHIJKLMNOP", "ABCDEFGHIJKLMNO"])).to_owned();
		valid = false;
		hist.push("shape: unknown mnemonic");
	}
	let expect = if valid && !hist.iter().any(|h| *h == "global-undefined") {meaning(mn, &vals, addr)} else {None};
	let stmt = if texts.is_empty() {format!("{name};")} else {format!("{name} {};", texts.join(if rng.chance(1, 8) {","} else {", "}))};
	let addr_text = if rng.chance(1, 2) {format!("0x{addr:X}")} else {format!("{addr}")};
	let head = format!(".addr {addr_text}; {}{stmt}", d.before);
	let tail = d.after.trim_end().to_owned();
	let text = format!("{head} {tail}").trim_end().to_owned();
	hist.push(match addr {a if a >= 0xFFFF_FFFC => "addr: 0xFFFFFFFC..F (addr + 4 >= 2^32)", a if a >= 0xFFFF_FFF0 => "addr: near wrap", a if a & 3 == 0 => "addr: 0 mod 4", a if a & 3 == 2 => "addr: 2 mod 4", _ => "addr: odd"});
	Case{text, expect, hist, head, tail, addr}
}

fn case_input(c: &Case) -> String
{
	format!("{}#{}", match &c.expect {Some(i) => ser_instr(i), None => "invalid".to_owned()}, c.text)
}

/// evaluate one case (model reply already folded into `pred`)
fn judge(cx: &mut Cx, input: &str, expect: &Option<Instruction>, prog: &Program, pred: &Predict, real: &Outcome)
{
	let model = pred.outcome(prog.addr).canon();
	let imp = real.canon();
	let nontrivial = !real.out.is_empty() && real.errs.is_empty();
	cx.report.case(if nontrivial {Some(&imp)} else {None});
	cx.report.compare("model.front.build", input, &model, &imp);

	// the property's oracle, on the implementation alone
	if let Some(p) = &real.panic
	{
		cx.report.oracle_fail(input, format!("the assembler panicked: {p}"));
		return;
	}
	let cap = (1u64 << 32) - prog.addr as u64;
	match expect.as_ref().map(|i| (i, encode(i)))
	{
		Some((i, Ok(enc))) if enc.len() as u64 <= cap =>
		{
			if !real.errs.is_empty() || !real.other.is_empty()
			{
				cx.report.oracle_fail(input, format!("valid statement meaning {} was refused: {:?} {:?}", ser_instr(i), real.errs, real.other));
			}
			else if real.out != vec![(prog.addr, enc.clone())]
			{
				cx.report.oracle_fail(input, format!("bytes at the statement address are {:?}, the encoding of {} is {}", real.out, ser_instr(i), hex(&enc)));
			}
			else
			{
				match Instruction::decode(&enc)
				{
					Ok((n, j)) if n == enc.len() && j == *i => (),
					other => cx.report.oracle_fail(input, format!("emitted bytes {} decode to {other:?}, written was {}", hex(&enc), ser_instr(i))),
				}
			}
		},
		_ =>
		{
			// out of range / misaligned / wrong arity / wrong kind / not encodable: a diagnostic, and nothing that
			// could pass for an encoding (the only bytes allowed are the 0xBE placeholder fill)
			if real.errs.is_empty() && real.other.is_empty()
			{
				cx.report.oracle_fail(input, format!("invalid statement produced no diagnostic; output {:?}", real.out));
			}
			else if real.out.iter().any(|(_, b)| b.iter().any(|x| *x != 0xBE))
			{
				cx.report.oracle_fail(input, format!("invalid statement left an encoding in the output: {:?} (diagnostics {:?})", real.out, real.errs));
			}
		},
	}
}

/// Deferred statements with a WITNESS behind them: `<statement with an operand that is not known yet>; .du16 0xA55A; <definitions>`.
/// The bytes at the statement's address must be the encoding and the two witness bytes must stand directly behind it, intact
/// (a placeholder of another size than the final encoding shifts or overwrites what follows). One-statement programs cannot see
/// that; every mnemonic that takes a value is run with forward constants and declared globals. Input: `W<expected>#<text>`.
const WITNESS: [u8; 2] = [0x5A, 0xA5];

fn check_witness(cx: &mut Cx, input: &str, expect: &Instruction, addr: u32, text: &str, dirs: &DirectiveList)
{
	let Ok(enc) = encode(expect) else {return};
	let real = real_run(text, 0, 0, dirs);
	let canon = real.canon();
	cx.report.case(Some(&canon));
	if let Some(p) = &real.panic {cx.report.oracle_fail(input, format!("the assembler panicked: {p}")); return;}
	let mut want = enc.clone();
	want.extend_from_slice(&WITNESS);
	if !real.errs.is_empty() || !real.other.is_empty()
	{
		cx.report.oracle_fail(input, format!("valid deferred statement meaning {} followed by `.du16 0xA55A` was refused: {:?} {:?}", ser_instr(expect), real.errs, real.other));
	}
	else if real.out != vec![(addr, want.clone())]
	{
		cx.report.oracle_fail(input, format!("output {:?}; the encoding of {} followed by the witness is {addr:08x}:{}", real.out, ser_instr(expect), hex(&want)));
	}
}

fn witness_stream(cx: &mut Cx, dirs: &DirectiveList)
{
	let per = if cx.thorough() {400} else {40};
	let mut made = 0u64;
	for which in 0..MNEMONICS.len()
	{
		let (mut got, mut tries) = (0, 0);
		while got < per && tries < per * 60
		{
			tries += 1;
			let mut rng = cx.rng.fork();
			let c = gen_case_of(&mut rng, Some(which));
			let Some(expect) = c.expect else {continue};
			if c.tail.is_empty() {continue;}                     // nothing is defined after the statement: not deferred
			let Ok(enc) = encode(&expect) else {continue};
			if c.addr as u64 + enc.len() as u64 + 2 > 1 << 32 {continue;}
			got += 1;
			// the witness directly behind the statement; sometimes a label and a second instruction as well
			let text = format!("{} .du16 0xA55A; {}", c.head, c.tail);
			let input = format!("W{}#{text}", ser_instr(&expect));
			cx.report.hit(&format!("witness: {}-byte encoding", enc.len()));
			check_witness(cx, &input, &expect, c.addr, &text, dirs);
			made += 1;
		}
		if got > 0 {cx.report.hit("witness: mnemonics with a deferred form");}
	}
	cx.report.hit_n("deferred statements with a trailing witness", made);
}

/// the operand of the leading `.addr <number>;`
fn analyse_addr(text: &str) -> Option<u32>
{
	let t = text.strip_prefix(".addr ")?;
	let n = &t[..t.find(';')?];
	if let Some(h) = n.strip_prefix("0x") {u32::from_str_radix(h, 16).ok()} else {n.parse().ok()}
}

fn parse_input(input: &str) -> Option<(Option<Instruction>, String)>
{
	let (e, text) = input.split_once('#')?;
	let expect = if e == "invalid" {None} else {Some(de_instr(e)?)};
	Some((expect, text.to_owned()))
}

fn run_batch(cx: &mut Cx, inputs: &[(String, Option<Instruction>, String)], dirs: &DirectiveList)
{
	let mut progs = Vec::new();
	let mut keep = Vec::new();
	for (idx, (input, _, text)) in inputs.iter().enumerate()
	{
		match analyse(text)
		{
			Some(p) => {progs.push(p); keep.push(idx);},
			None => cx.report.oracle_fail(input.clone(), "generated program is not of the one-statement shape (harness error)"),
		}
	}
	let preds = predict_all(cx, &progs, dirs);
	for ((&idx, prog), pred) in keep.iter().zip(progs.iter()).zip(preds.iter())
	{
		let (input, expect, text) = &inputs[idx];
		let real = real_run(text, prog.line, prog.col, dirs);
		judge(cx, input, expect, prog, pred, &real);
	}
}

pub fn run(cx: &mut Cx)
{
	let dirs = dirs();
	cx.report.rule = "one instruction statement per program after `.addr A;`: every mnemonic x spelling (case, register aliases) x operand shape \
(right / one too many / one too few / wrong kind / no such register / unknown mnemonic) x immediates as constant expressions (literal, hex, \
parenthesised, sum, product, shift, .const before, .const after = deferred, .global declared and defined later / never) x [base + off] in both orders \
and [base] x addresses {0,1,2,3 mod 4} x {0, 0x10000000, 0x20000000, 0xFFFFFFF0..0xFFFFFFFF incl. 0xFFFFFFFC/E where addr+4 passes 2^32} x targets at/inside/beyond every range boundary and \
misaligned. Real Context pipeline as bin/assembler.rs. Oracle: expected Instruction computed from the written operands; bytes must be its \
encoding and decode back; invalid statements must give a diagnostic and no encoding. Model: Front.build/assemble with the REAL evaluate as eval, \
plus real encode, compared on diagnostics (full text) and output bytes. non-trivial = statement assembled to bytes without diagnostics".to_owned();

	if let Some(input) = cx.replay.clone()
	{
		if let Some(rest) = input.strip_prefix('W')
		{
			// `W<expected>#<text>`: the address is the operand of the leading `.addr`
			let parsed = rest.split_once('#').and_then(|(e, t)| Some((de_instr(e)?, t.to_owned())));
			let addr = parsed.as_ref().and_then(|(_, t)| analyse_addr(t));
			match (parsed, addr)
			{
				(Some((expect, text)), Some(addr)) => check_witness(cx, &input, &expect, addr, &text, dirs),
				_ => cx.report.oracle_fail(input, "unrecognised replay input"),
			}
			return;
		}
		match parse_input(&input)
		{
			Some((expect, text)) => run_batch(cx, &[(input, expect, text)], dirs),
			None => cx.report.oracle_fail(input, "unrecognised replay input"),
		}
		return;
	}

	// fixed table first: the register / mnemonic name tables of the model against the real `is_register`
	names_audit(cx);

	// operand shapes the random generator does not write (found with tools/coverage.sh): names too long for the register tables,
	// list items that are no names, address expressions of other forms; all must be diagnosed and leave no encoding
	let fixed: Vec<(String, Option<Instruction>, String)> = [
		"MOVS R0000, 1;", "MOVS R0, R1R1R;", "ADCS R0, R1234;", "MOV programcounter, R0;", "BX linkregister;", "SXTB R0, R1234567;",
		"PUSH {R0, longname9};", "PUSH {1};", "PUSH {R0, 1};", "POP {\"R0\"};", "POP {R0, [R1]};", "LDM R0, {R1, R2 + 0};", "STM R0, {{R1}};", "POP {-R0};",
		"MRS R0, 5;", "MRS R0, \"PRIMASK\";", "MRS R0, NOSUCHSYSTEMREGISTER;", "MRS R0, PRIMASKS1;", "MSR toolongname, R0;", "MSR 16, R0;",
		"LDR R0, [R1 + R2 + R3];", "LDR R0, [R1 + R2 + 4];", "LDR R0, [R1 + 4 + R2];", "STR R0, [R1 - 4];", "STR R0, [R1 * 4];", "LDRB R0, [R1 + 0x100000000];",
		"LDRH R0, [4 - R1];", "LDR R0, [-R1];", "LDR R0, [longname9 + 4];", "LDR R0, [R1 + longname9];", "LDR R0, [[R1]];", "LDR R0, [R1 + [R2]];",
		"LDRSB R0, [R1 + 4];", "LDRSH R0, [R1];", "STRB R0, [R1 + \"4\"];",
	].iter().flat_map(|t| [0x2000_0000u32, 0xFFFF_FFFE].into_iter().map(move |a| {let text = format!(".addr 0x{a:X}; {t}"); (format!("invalid#{text}"), None, text)})).collect();
	cx.report.hit_n("fixed invalid operand shapes", fixed.len() as u64);
	run_batch(cx, &fixed, dirs);

	// operands written as literals beyond the i64 range (any radix, also with low bits that would be a valid operand):
	// the text does not lex, so there is no model side; the statement must be diagnosed and leave no encoding
	{
		let big: Vec<String> = vec!["0x10000000000000001".to_owned(), "0x8000000000000000".to_owned(), "0xFFFFFFFFFFFFFFFF".to_owned(), "0x10000000000000000".to_owned(),
			"0x100000000000000000000004".to_owned(), format!("0b1{}1", "0".repeat(63)), format!("0b1{}100", "0".repeat(62)), "0o2000000000000000000001".to_owned(),
			"0o1000000000000000000000".to_owned(), "9223372036854775808".to_owned(), "18446744073709551617".to_owned(), "36893488147419103236".to_owned()];
		let forms = ["MOVS R0, {};", "SVC {};", "ADDS R1, R1, {};", "LDRB R0, [R1 + {}];", "LDR R0, [SP + {}];", "B {};", "BL {};", "CMP R2, {};", "UDF.W {};", "MOVS R0, {} & 0xFF;", "MOVS R0, 1 + {};"];
		let mut n = 0u64;
		for b in &big
		{
			for f in forms
			{
				let text = format!(".addr 0x20000000; {}", f.replace("{}", b));
				let input = format!("invalid#{text}");
				let real = real_run(&text, 1, 19, dirs);
				n += 1;
				cx.report.case(None);
				if let Some(p) = &real.panic {cx.report.oracle_fail(input, format!("the assembler panicked: {p}")); continue;}
				if real.errs.is_empty() && real.other.is_empty()
				{
					cx.report.oracle_fail(input, format!("a literal beyond the 64-bit range was accepted without a diagnostic; output {:?}", real.out));
				}
				else if real.out.iter().any(|(_, b)| b.iter().any(|x| *x != 0xBE))
				{
					cx.report.oracle_fail(input, format!("invalid statement left an encoding in the output: {:?}", real.out));
				}
			}
		}
		cx.report.hit_n("operands with literals beyond 2^63 (must be diagnosed)", n);
	}

	witness_stream(cx, dirs);

	let total = if cx.thorough() {5_000_000} else {200_000};
	let mut done = 0;
	while done < total
	{
		let n = 4096.min(total - done);
		let mut inputs = Vec::with_capacity(n);
		for _ in 0..n
		{
			let c = gen_case(&mut cx.rng);
			for h in &c.hist {cx.report.hit(h);}
			cx.report.hit(if c.expect.is_some() {"expect: valid meaning"} else {"expect: invalid"});
			if done < 12 && inputs.len() < 12 {cx.report.sample(c.text.clone());}
			inputs.push((case_input(&c), c.expect, c.text));
		}
		run_batch(cx, &inputs, dirs);
		done += n;
	}
}

/// `is_register` of the real instruction set against the model, over all names up to 3 letters over a small
/// alphabet plus every table name in three spellings
fn names_audit(cx: &mut Cx)
{
	use trion::asm::instr::InstructionSet;
	let mut names: Vec<String> = Vec::new();
	let alpha = ['R', 'r', 'S', 'P', 'p', 'L', 'C', '0', '1', '2', '5', '9', 'x'];
	for a in alpha {names.push(a.to_string()); for b in alpha {names.push(format!("{a}{b}")); for c in alpha {names.push(format!("{a}{b}{c}")); for d in ['0', '1', 'x'] {names.push(format!("{a}{b}{c}{d}"));}}}}
	for (n, _) in SYS {names.push(n.to_string()); names.push(n.to_ascii_lowercase()); names.push(format!("{n}x")); names.push(format!("x{n}"));}
	names.push("PRIMASKS".to_owned());
	names.push("CONTROLLER".to_owned());
	names.push(String::new());
	let reqs: Vec<String> = names.iter().map(|n| format!("front isreg {}", hex(n.as_bytes()))).collect();
	let replies = cx.model.ask_many(&reqs);
	for (n, r) in names.iter().zip(replies.iter())
	{
		let imp = if trion::arm6m::Arm6M.is_register(n) {"1"} else {"0"};
		cx.report.case(if imp == "1" {Some(n)} else {None});
		cx.report.compare("model.front.isRegister", &format!("isreg {n}"), r, imp);
	}
	cx.report.hit_n("is_register names", names.len() as u64);
	// the mnemonic list of the oracle table and of the model are the same set
	let model_names = cx.model.ask("front names");
	let mut mine: Vec<&str> = MNEMONICS.iter().map(|m| m.0).collect();
	mine.sort();
	let mut theirs: Vec<&str> = model_names.split(' ').collect();
	theirs.sort();
	if mine != theirs
	{
		cx.report.disagree("model.front.mnemonic", "names", theirs.join(" "), mine.join(" "));
	}
}
